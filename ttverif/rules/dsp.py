"""DSP: dispatch exhaustiveness over closed families, and content-model extraction."""
from __future__ import annotations

import ast
import typing

from ..consteval import ConstEval, EnumMember, NotConst
from ..core import AnalysisError, ClassInfo, FuncInfo, Index, dotted, own_nodes, unparse


def isinstance_classes(ix: Index, f: FuncInfo, subject: typing.Optional[str] = None) -> typing.Dict[str, typing.List[ast.AST]]:
  """Classes tested by `isinstance(<subject>, C)` / `isinstance(<subject>, (C1, C2))` in f.
  subject: text of the tested expression (None = any).  Returns qualname -> test nodes."""
  out: typing.Dict[str, typing.List[ast.AST]] = {}
  for n in own_nodes(f.node):
    if isinstance(n, ast.Call) and isinstance(n.func, ast.Name) and n.func.id == "isinstance" and len(n.args) == 2:
      if subject is not None and unparse(n.args[0]) != subject:
        continue
      spec = n.args[1]
      elts = spec.elts if isinstance(spec, (ast.Tuple, ast.List)) else [spec]
      for e in elts:
        r = ix.resolve(f.module, e, cls=f.cls, func=f)
        if r is None and isinstance(e, ast.Name):
          # table-driven dispatch: `isinstance(x, k) for k, v in TABLE` with TABLE a constant tuple of (class, ...) rows
          for c in _table_column(ix, f, n, e.id):
            out.setdefault(c.qualname, []).append(n)
          continue
        if isinstance(r, ClassInfo):
          out.setdefault(r.qualname, []).append(n)
        elif isinstance(r, tuple) and r[0] == "assign":
          # a name bound to a tuple of classes
          v = r[2]
          if isinstance(v, (ast.Tuple, ast.List)):
            for e2 in v.elts:
              r2 = ix.resolve(r[1], e2)
              if isinstance(r2, ClassInfo):
                out.setdefault(r2.qualname, []).append(n)
  return out


def _table_column(ix: Index, f: FuncInfo, node, var: str) -> typing.List[ClassInfo]:
  """Classes that loop / comprehension variable `var` ranges over when it is bound by iterating a
  module- or class-level constant tuple / list (of classes, or of rows whose column holds classes)."""
  from ..core import ancestors
  for a in ancestors(node):
    gens = []
    if isinstance(a, (ast.GeneratorExp, ast.ListComp, ast.SetComp, ast.DictComp)):
      gens = [(g.target, g.iter) for g in a.generators]
    elif isinstance(a, ast.For):
      gens = [(a.target, a.iter)]
    for tgt, it in gens:
      col = None
      if isinstance(tgt, ast.Name) and tgt.id == var:
        col = -1
      elif isinstance(tgt, (ast.Tuple, ast.List)):
        for i, t in enumerate(tgt.elts):
          if isinstance(t, ast.Name) and t.id == var:
            col = i
      if col is None:
        continue
      r = ix.resolve(f.module, it, cls=f.cls, func=f) if isinstance(it, (ast.Name, ast.Attribute)) else None
      table = r[2] if isinstance(r, tuple) and r[0] == "assign" else (it if isinstance(it, (ast.Tuple, ast.List)) else None)
      mod = r[1] if isinstance(r, tuple) and r[0] == "assign" else f.module
      if not isinstance(table, (ast.Tuple, ast.List)):
        return []
      out = []
      for row in table.elts:
        cell = row if col == -1 else (row.elts[col] if isinstance(row, (ast.Tuple, ast.List)) and col < len(row.elts) else None)
        c = ix.resolve(mod, cell) if cell is not None else None
        if isinstance(c, ClassInfo):
          out.append(c)
      return out
  return []


def handled(ix: Index, cls: ClassInfo, tested: typing.Iterable[str]) -> typing.Optional[str]:
  """Is `cls` (or one of its bases) among the tested classes?  Returns the matching qualname."""
  tested = set(tested)
  for c in ix.mro(cls):
    if c.qualname in tested:
      return c.qualname
  return None


class ContentModel:
  """Parent -> allowed child classes, extracted from the push_child / push_children guards of
  ttconv/model.py (isinstance guards that lead to a raise, and the literal pattern lists of
  Ruby.push_children)."""

  def __init__(self, ix: Index):
    self.ix = ix
    self.base = ix.cls("ttconv.model:ContentElement")
    self.kinds = [c for c in ix.all_subclasses(self.base) if c.module.name == "ttconv.model"]
    self.allowed: typing.Dict[str, typing.Set[str]] = {}
    self.patterns: typing.Dict[str, typing.List[typing.List[str]]] = {}
    self.no_children: typing.Set[str] = set()
    for c in self.kinds:
      self.allowed[c.name] = set()
      pc = c.methods.get("push_child")
      pcs = c.methods.get("push_children")
      if pcs is not None:
        for n in own_nodes(pcs.node):
          table = ix.deref(c.module, n.comparators[0], cls=c, func=pcs) if isinstance(n, ast.Compare) and len(n.ops) == 1 else None
          if isinstance(n, ast.Compare) and len(n.ops) == 1 and isinstance(n.ops[0], (ast.NotIn, ast.In)) \
              and isinstance(table, (ast.List, ast.Tuple, ast.Set)):
            pats = []
            for pat in table.elts:
              if isinstance(pat, (ast.List, ast.Tuple)):
                names = []
                for e in pat.elts:
                  r = ix.resolve(c.module, e, cls=c)
                  names.append(r.name if isinstance(r, ClassInfo) else unparse(e))
                pats.append(names)
            if pats:
              self.patterns[c.name] = pats
              for p in pats:
                self.allowed[c.name] |= set(p)
      if pc is not None:
        tested = isinstance_classes(ix, pc)
        raises_always = self._always_raises(pc)
        if raises_always and not tested:
          if c.name not in self.patterns:
            self.no_children.add(c.name)
        for q in tested:
          k = ix.classes[q]
          if k.name != "NoneType":
            self.allowed[c.name].add(k.name)

  @staticmethod
  def _always_raises(f: FuncInfo) -> bool:
    body = [s for s in f.node.body if not (isinstance(s, ast.Expr) and isinstance(s.value, ast.Constant))]
    return len(body) >= 1 and isinstance(body[0], ast.Raise)

  def reachable_under(self, name: str) -> typing.Set[str]:
    seen, stack = set(), [name]
    while stack:
      cur = stack.pop()
      for ch in self.allowed.get(cur, ()):
        if ch not in seen:
          seen.add(ch)
          stack.append(ch)
    return seen


def enum_members_tested(ix: Index, f: FuncInfo, enum: ClassInfo) -> typing.Dict[str, typing.List[ast.AST]]:
  """Members of `enum` that appear as comparison operands / dict keys / `in (...)` elements in f."""
  out: typing.Dict[str, typing.List[ast.AST]] = {}
  for n in own_nodes(f.node):
    if isinstance(n, ast.Attribute) and isinstance(n.ctx, ast.Load):
      r = ix.resolve(f.module, n.value, cls=f.cls, func=f) if isinstance(n.value, (ast.Name, ast.Attribute)) else None
      if r is enum and n.attr in enum.assigns:
        out.setdefault(n.attr, []).append(n)
  return out
