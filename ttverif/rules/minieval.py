"""A small interpreter for the tree-walking functions of the package, used to decide *order and coverage* rules
(which nodes of a little sample tree a walker reaches, in which order, with which arguments) independently of whether the
walker is written with recursion, an explicit stack, a comprehension or a loop.

It interprets the source of the analysed function - and of the package functions it calls - on explicit sample values:
  * `Node`: a stand-in for a model element (a kind = class name of ttconv.model, a list of children, a field dictionary);
    iterating a Node, `list(node)`, `len(node)`, `node.has_children()` follow its child list (what ContentElement.__iter__
    provides; the link fields behind it are the business of rule FIN-links);
  * ints, Fractions, strings, None, tuples, lists, dicts, sets.
Calls of methods on a Node that the harness does not define are recorded in `trace` as (node, method, arguments) and return
None unless the caller supplies `node_methods`.  Nothing of ttconv is imported or executed.  Anything outside the subset
raises NotConst, which callers report as UNDECIDED - never as a verdict."""
from __future__ import annotations

import ast
import typing
from fractions import Fraction

from ..consteval import ConstEval, EnumMember, NotConst, Raised, Sym
from ..core import ClassInfo, FuncInfo, Index, unparse


class Node:
  """Sample tree node."""
  _n = 0

  def __init__(self, kind: str, name: str = "", children=(), **fields):
    self.kind = kind
    Node._n += 1
    self.name = name or f"{kind.lower()}{Node._n}"
    self.children: typing.List["Node"] = []
    self.fields = dict(fields)
    self.parent: typing.Optional["Node"] = None
    for c in children:
      self.children.append(c)
      c.parent = self

  def __repr__(self):
    return self.name

  def walk(self):
    yield self
    for c in self.children:
      yield from c.walk()


class _Return(Exception):
  def __init__(self, v):
    self.v = v


class _Break(Exception):
  pass


class _Continue(Exception):
  pass


_MODEL_KINDS = {"Body", "Div", "P", "Span", "Br", "Text", "Ruby", "Rb", "Rt", "Rp", "Rbc", "Rtc", "Region"}


class MiniEval:
  MAX_STEPS = 200000
  MAX_DEPTH = 40

  def __init__(self, ix: Index, node_methods: typing.Optional[typing.Dict[str, typing.Callable]] = None, opaque_calls: typing.Iterable[str] = (),
               func_hooks: typing.Optional[typing.Dict[str, typing.Callable]] = None, node_classes: typing.Optional[typing.Dict[str, ClassInfo]] = None):
    self.ix = ix
    self.ce = ConstEval(ix, symbolic_ok=True)
    self.trace: typing.List[tuple] = []
    self.steps = 0
    self.node_methods = dict(node_methods or {})
    self.func_hooks = dict(func_hooks or {})          # qualname of a package function -> stand-in (answers a call from tables the caller extracted)
    self.node_classes = dict(node_classes or {})      # node kind -> class of the package whose methods are interpreted on the node
    self.opaque = set(opaque_calls)
    self.init_modules: typing.Set[str] = set()        # modules whose plain classes are built by interpreting their __init__
    self.opaque_results = dict(opaque_calls) if isinstance(opaque_calls, dict) else {}

  # ---------------------------------------------------------------------------------------
  def call(self, f: FuncInfo, args: typing.List[typing.Any], kwargs: typing.Optional[dict] = None, closure: typing.Optional[dict] = None, depth=0):
    if depth > self.MAX_DEPTH:
      raise Raised()          # runaway recursion
    if f.qualname in self.func_hooks:
      return self.func_hooks[f.qualname](*args)
    a = f.node.args
    names = [x.arg for x in a.posonlyargs + a.args]
    env = dict(closure or {})
    if len(args) > len(names):
      raise NotConst(f"{f.short}: too many arguments")
    for n, v in zip(names, args):
      env[n] = v
    for k, v in (kwargs or {}).items():
      env[k] = v
    defaults = a.defaults
    for n, d in zip(names[len(names) - len(defaults):], defaults):
      if n not in env:
        env[n] = self.ev(d, env, f, depth)
    for kwo, d in zip(a.kwonlyargs, a.kw_defaults):
      if kwo.arg not in env and d is not None:
        env[kwo.arg] = self.ev(d, env, f, depth)
    missing = [n for n in names if n not in env]
    if missing:
      raise NotConst(f"{f.short}: missing argument {missing[0]}")
    is_gen = any(isinstance(x, (ast.Yield, ast.YieldFrom)) for x in ast.walk(f.node) if self._own(f, x))
    if is_gen:
      out: list = []
      env["__yield__"] = out
      try:
        self.block(f.node.body, env, f, depth)
      except _Return:
        pass
      return out
    try:
      self.block(f.node.body, env, f, depth)
    except _Return as r:
      return r.v
    return None

  @staticmethod
  def _own(f, node):
    cur = getattr(node, "_parent", None)
    while cur is not None and cur is not f.node:
      if isinstance(cur, (ast.FunctionDef, ast.AsyncFunctionDef, ast.Lambda)):
        return False
      cur = getattr(cur, "_parent", None)
    return True

  # ---------------------------------------------------------------------------------------
  def block(self, stmts, env, f, depth):
    for st in stmts:
      self.steps += 1
      if self.steps > self.MAX_STEPS:
        raise NotConst("evaluation does not end")
      if isinstance(st, ast.Expr):
        if isinstance(st.value, ast.Constant):
          continue
        self.ev(st.value, env, f, depth)
      elif isinstance(st, ast.Pass):
        continue
      elif isinstance(st, (ast.FunctionDef, ast.AsyncFunctionDef)):
        fi = self._nested(f, st)
        env[st.name] = ("closure", fi, env)
      elif isinstance(st, ast.Return):
        raise _Return(self.ev(st.value, env, f, depth) if st.value is not None else None)
      elif isinstance(st, ast.Raise):
        # the class of an explicit raise is kept (args[0]); every other Raised() stands for an error of the evaluation itself
        ex_ = st.exc.func if isinstance(st.exc, ast.Call) else st.exc
        raise Raised(ex_.id if isinstance(ex_, ast.Name) else (ex_.attr if isinstance(ex_, ast.Attribute) else "?"))
      elif isinstance(st, ast.Assert):
        try:
          if not self.ev(st.test, env, f, depth):
            raise Raised()
        except NotConst:
          pass
      elif isinstance(st, ast.Break):
        raise _Break()
      elif isinstance(st, ast.Continue):
        raise _Continue()
      elif isinstance(st, ast.Assign):
        v = self.ev(st.value, env, f, depth)
        for t in st.targets:
          self.bind(t, v, env, f, depth)
      elif isinstance(st, ast.AnnAssign):
        if st.value is not None:
          self.bind(st.target, self.ev(st.value, env, f, depth), env, f, depth)
      elif isinstance(st, ast.AugAssign):
        cur = self.ev(st.target, env, f, depth)
        v = self.ev(st.value, env, f, depth)
        self.bind(st.target, self._binop(st.op, cur, v), env, f, depth)
      elif isinstance(st, ast.If):
        self.block(st.body if self.truth(self.ev(st.test, env, f, depth)) else st.orelse, env, f, depth)
      elif isinstance(st, ast.While):
        broke = False
        while self.truth(self.ev(st.test, env, f, depth)):
          self.steps += 1
          if self.steps > self.MAX_STEPS:
            raise NotConst("evaluation does not end")
          try:
            self.block(st.body, env, f, depth)
          except _Break:
            broke = True
            break
          except _Continue:
            continue
        if not broke:
          self.block(st.orelse, env, f, depth)
      elif isinstance(st, ast.For):
        broke = False
        for item in self.iterate(self.ev(st.iter, env, f, depth)):
          self.bind(st.target, item, env, f, depth)
          try:
            self.block(st.body, env, f, depth)
          except _Break:
            broke = True
            break
          except _Continue:
            continue
        if not broke:
          self.block(st.orelse, env, f, depth)
      elif isinstance(st, ast.Delete):
        for t in st.targets:
          if isinstance(t, ast.Subscript):
            base = self.ev(t.value, env, f, depth)
            key = self.ev(t.slice, env, f, depth)
            try:
              del base[key]
            except (KeyError, IndexError, TypeError):
              raise Raised()
          else:
            raise NotConst("del")
      elif isinstance(st, ast.With):
        for it in st.items:
          v = self.ev(it.context_expr, env, f, depth)
          if it.optional_vars is not None:
            self.bind(it.optional_vars, v, env, f, depth)
        self.block(st.body, env, f, depth)
      elif isinstance(st, ast.Try):
        try:
          self.block(st.body, env, f, depth)
        except Raised:
          if not st.handlers:
            raise
          self.block(st.handlers[0].body, env, f, depth)
        else:
          self.block(st.orelse, env, f, depth)
        finally:
          pass
        self.block(st.finalbody, env, f, depth)
      elif isinstance(st, (ast.Import, ast.ImportFrom)) and all((a_.name.split(".")[0] if isinstance(st, ast.Import) else (st.module or "").split(".")[0]) in ("unicodedata", "re", "math", "html", "fractions", "typing", "numbers")
                                                                     for a_ in st.names):
        pass          # a local import of a standard module the interpreter models: the names are resolved where they are used
      elif isinstance(st, ast.ClassDef) and isinstance(getattr(st, "_info", None), ClassInfo):
        env[st.name] = st._info            # a class defined inside the function (an enumeration of states, say)
      else:
        raise NotConst(f"statement {type(st).__name__} at line {st.lineno}")

  def _nested(self, f: FuncInfo, node) -> FuncInfo:
    fi = f.nested.get(node.name) if hasattr(f, "nested") else None
    if fi is None or fi.node is not node:
      fi = FuncInfo(node.name, f"{f.qualname}.<locals>.{node.name}", f.module, node, f.cls, f)
    return fi

  @staticmethod
  def truth(v):
    if isinstance(v, Node):
      # model.ContentElement defines __len__ (the number of children): an element without children is false
      return bool(v.children) if v.kind in _MODEL_KINDS else True
    if isinstance(v, Sym):
      raise NotConst("truth of an opaque value")
    return bool(v)

  def iterate(self, v):
    if hasattr(v, "__next__"):
      return v                       # an iterator made by iter(): consumed lazily, as in the language
    if isinstance(v, Node):
      return list(v.children)
    if isinstance(v, dict) and v.get("__record__"):
      m_ = self._record_method(v, "__iter__")
      if m_ is not None:
        return self.iterate(self.call(m_, [v], None, {}, 1))
      raise NotConst("iteration over a record")
    if isinstance(v, (list, tuple, set, frozenset, dict, str, range)):
      return list(v)
    if isinstance(v, ClassInfo) and self.ix.is_enum(v):
      # members in definition order; a member whose value repeats an earlier one is an alias and is not iterated
      out, seen_vals = [], []
      for m_ in self._enum_table(v, None).values():
        if isinstance(m_.value, Sym):
          raise NotConst("iteration over an enumeration with opaque values")
        if any(type(x_) is type(m_.value) and x_ == m_.value for x_ in seen_vals):
          continue
        seen_vals.append(m_.value)
        out.append(m_)
      return out
    raise NotConst(f"iteration over {type(v).__name__}")

  def bind(self, t, v, env, f, depth):
    if isinstance(t, ast.Name):
      env[t.id] = v
    elif isinstance(t, (ast.Tuple, ast.List)):
      vals = list(self.iterate(v))
      stars = [i for i, x in enumerate(t.elts) if isinstance(x, ast.Starred)]
      if len(stars) == 1:
        # a, b, *rest = values
        i = stars[0]
        after = len(t.elts) - i - 1
        if len(vals) < len(t.elts) - 1:
          raise Raised()
        for x, y in zip(t.elts[:i], vals[:i]):
          self.bind(x, y, env, f, depth)
        self.bind(t.elts[i].value, vals[i:len(vals) - after], env, f, depth)
        for x, y in zip(t.elts[i + 1:], vals[len(vals) - after:] if after else []):
          self.bind(x, y, env, f, depth)
        return
      if stars or len(vals) != len(t.elts):
        raise Raised()
      for x, y in zip(t.elts, vals):
        self.bind(x, y, env, f, depth)
    elif isinstance(t, ast.Subscript):
      base = self.ev(t.value, env, f, depth)
      key = self.ev(t.slice, env, f, depth)
      if isinstance(base, (list, dict)):
        try:
          base[key] = v
        except (IndexError, TypeError):
          raise Raised()
      else:
        raise NotConst("subscript store")
    elif isinstance(t, ast.Attribute):
      base = self.ev(t.value, env, f, depth)
      if isinstance(base, Node):
        base.fields[t.attr] = v
      elif isinstance(base, dict) and base.get("__record__"):
        base[t.attr] = v
      elif isinstance(base, EnumMember):
        self.__dict__.setdefault("_enum_inst", {}).setdefault((base.cls, base.name), {})[t.attr] = v
      else:
        raise NotConst("attribute store")
    else:
      raise NotConst("assignment target")

  # ---------------------------------------------------------------------------------------
  def _binop(self, op, a, b):
    try:
      if isinstance(op, ast.Add):
        return a + b
      if isinstance(op, ast.Sub):
        return a - b
      if isinstance(op, ast.Mult):
        return a * b
      if isinstance(op, ast.Div):
        return a / b          # as Python does: int / int is a float, Fraction / int a Fraction
      if isinstance(op, ast.FloorDiv):
        return a // b
      if isinstance(op, ast.Mod):
        return a % b
      if isinstance(op, ast.BitOr):
        return a | b
      if isinstance(op, ast.BitAnd):
        return a & b
    except ZeroDivisionError:
      raise Raised()
    except TypeError:
      raise Raised()
    raise NotConst("operator")

  def kind_matches(self, node: Node, spec) -> bool:
    specs = spec if isinstance(spec, (tuple, list)) else [spec]
    for s in specs:
      name = s.name if isinstance(s, ClassInfo) else (s[1] if isinstance(s, tuple) and s and s[0] == "class" else None)
      if name is None:
        raise NotConst("isinstance against a non-class")
      ci = self.ix.classes.get(f"ttconv.model:{node.kind}")
      if ci is not None:
        if any(c.name == name for c in self.ix.mro(ci)):
          return True
      elif node.kind == name:
        return True
    return False

  def ev(self, e, env, f, depth):
    self.steps += 1
    if self.steps > self.MAX_STEPS:
      raise NotConst("evaluation does not end")
    if isinstance(e, ast.Constant):
      return e.value
    if isinstance(e, ast.Name):
      if e.id in env:
        return env[e.id]
      rx = self._regex_constant(f, e.id)
      if rx is not None:
        return rx
      r = self.ix.resolve(f.module, e, cls=f.cls, func=f)
      if isinstance(r, ClassInfo):
        return r
      if isinstance(r, FuncInfo):
        return ("closure", r, {})
      if isinstance(r, tuple) and r and r[0] == "assign" and isinstance(r[2], ast.Call) and unparse(r[2].func) == "re.compile" and len(r[2].args) >= 1:
        # NAME = re.compile(<constant expression of the module>, flags?)
        import re as _re
        try:
          pat_ = self.ce.ev(r[1], r[2].args[0], None)
          flags_ = 0
          for fl_ in list(r[2].args[1:]) + [k_.value for k_ in r[2].keywords if k_.arg == "flags"]:
            for nm_ in unparse(fl_).replace("re.", "").split("|"):
              flags_ |= getattr(_re, nm_.strip())
        except (NotConst, AttributeError):
          pat_ = None
        if isinstance(pat_, str):
          try:
            return _re.compile(pat_, flags_)
          except _re.error:
            raise Raised()
      if e.id in ("None", "True", "False"):
        return {"None": None, "True": True, "False": False}[e.id]
      if r is None and e.id in ("str", "int", "float", "bool", "list", "tuple", "dict", "set", "bytes", "Fraction"):
        return self._BUILTIN_TYPES[e.id]       # the type object itself (`type(x) is str`)
      try:
        v_ = self.ce.ev(f.module, e, f.cls)
        if isinstance(v_, Sym) and isinstance(r, tuple) and r and r[0] == "assign" and isinstance(r[2], ast.Call):
          raise NotConst("symbolic")         # a module-level value built by a call: built below, in module context
        return v_
      except NotConst:
        # a module-level table whose rows hold lambdas / references to functions: built here, once, in module context
        if isinstance(r, tuple) and r and r[0] == "assign" and isinstance(r[2], (ast.Tuple, ast.List, ast.Dict, ast.ListComp, ast.DictComp, ast.Call, ast.Set, ast.SetComp)) and depth < self.MAX_DEPTH:
          cache = self.__dict__.setdefault("_module_tables", {})
          key = (r[1].name, e.id)
          if key not in cache:
            anyf = next(iter(self.ix.funcs_in(r[1].name)), None)
            if anyf is None:
              raise NotConst(f"name {e.id}")
            ctxf = anyf
            while ctxf.cls is not None or getattr(ctxf, "outer_func", None) is not None:
              nxt = next((g for g in self.ix.funcs_in(r[1].name) if g.cls is None and getattr(g, "outer_func", None) is None), None)
              if nxt is None:
                break
              ctxf = nxt
              break
            cache[key] = self.ev(r[2], {}, ctxf, depth + 1)
          return cache[key]
        raise NotConst(f"name {e.id}")
    if isinstance(e, (ast.Tuple, ast.List)):
      vals = []
      for x in e.elts:
        if isinstance(x, ast.Starred):
          vals.extend(self.iterate(self.ev(x.value, env, f, depth)))
        else:
          vals.append(self.ev(x, env, f, depth))
      return tuple(vals) if isinstance(e, ast.Tuple) else vals
    if isinstance(e, ast.Set):
      return {self.ev(x, env, f, depth) for x in e.elts}
    if isinstance(e, ast.Dict):
      out = {}
      for k, v in zip(e.keys, e.values):
        if k is None:
          out.update(self.ev(v, env, f, depth))
        else:
          out[self.ev(k, env, f, depth)] = self.ev(v, env, f, depth)
      return out
    if isinstance(e, ast.UnaryOp):
      v = self.ev(e.operand, env, f, depth)
      if isinstance(e.op, ast.Not):
        return not self.truth(v)
      if isinstance(e.op, ast.USub):
        return -v
      raise NotConst("unary operator")
    if isinstance(e, ast.BoolOp):
      v = None
      for x in e.values:
        v = self.ev(x, env, f, depth)
        t = self.truth(v)
        if isinstance(e.op, ast.And) and not t:
          return v
        if isinstance(e.op, ast.Or) and t:
          return v
      return v
    if isinstance(e, ast.IfExp):
      return self.ev(e.body if self.truth(self.ev(e.test, env, f, depth)) else e.orelse, env, f, depth)
    if isinstance(e, ast.Compare):
      left = self.ev(e.left, env, f, depth)
      for op, rhs in zip(e.ops, e.comparators):
        right = self.ev(rhs, env, f, depth)
        if not self._cmp(op, left, right):
          return False
        left = right
      return True
    if isinstance(e, ast.BinOp):
      return self._binop(e.op, self.ev(e.left, env, f, depth), self.ev(e.right, env, f, depth))
    if isinstance(e, ast.Subscript):
      base = self.ev(e.value, env, f, depth)
      if isinstance(e.slice, ast.Slice):
        sl = slice(*(None if x is None else self.ev(x, env, f, depth) for x in (e.slice.lower, e.slice.upper, e.slice.step)))
        if isinstance(base, (list, tuple, str)):
          return base[sl]
        raise NotConst("slice")
      key = self.ev(e.slice, env, f, depth)
      if isinstance(base, ClassInfo) and self.ix.is_enum(base) and isinstance(key, str):
        tbl = self._enum_table(base, f)
        if key in tbl:
          return tbl[key]
        raise Raised()
      if isinstance(base, dict) and base.get("__record__"):
        m_ = self._record_method(base, "__getitem__")
        if m_ is None:
          raise Raised()
        return self.call(m_, [base, key], None, {}, depth + 1)
      if isinstance(base, (list, tuple, str, dict)):
        try:
          return base[key]
        except (IndexError, KeyError, TypeError):
          raise Raised()
      raise NotConst("subscript")
    if isinstance(e, (ast.ListComp, ast.SetComp, ast.GeneratorExp, ast.DictComp)):
      out: list = []

      def gen(i, env2):
        if i == len(e.generators):
          if isinstance(e, ast.DictComp):
            out.append((self.ev(e.key, env2, f, depth), self.ev(e.value, env2, f, depth)))
          else:
            out.append(self.ev(e.elt, env2, f, depth))
          return
        g = e.generators[i]
        for item in self.iterate(self.ev(g.iter, env2, f, depth)):
          env3 = dict(env2)
          self.bind(g.target, item, env3, f, depth)
          if all(self.truth(self.ev(c, env3, f, depth)) for c in g.ifs):
            gen(i + 1, env3)
      gen(0, dict(env))
      if isinstance(e, ast.SetComp):
        return set(out)
      if isinstance(e, ast.DictComp):
        return dict(out)
      return out
    if isinstance(e, ast.Yield):
      env["__yield__"].append(self.ev(e.value, env, f, depth) if e.value is not None else None)
      return None
    if isinstance(e, ast.YieldFrom):
      env["__yield__"].extend(self.iterate(self.ev(e.value, env, f, depth)))
      return None
    if isinstance(e, ast.NamedExpr):
      v = self.ev(e.value, env, f, depth)
      env[e.target.id] = v
      return v
    if isinstance(e, ast.Attribute):
      return self.attribute(e, env, f, depth)
    if isinstance(e, ast.Call):
      return self.call_expr(e, env, f, depth)
    if isinstance(e, ast.JoinedStr):
      out = []
      for part in e.values:
        if isinstance(part, ast.Constant):
          out.append(str(part.value))
        elif isinstance(part, ast.FormattedValue):
          v = self.ev(part.value, env, f, depth)
          if isinstance(v, (Node, Sym)) or (isinstance(v, dict) and v.get("__record__")):
            out.append(f"<{getattr(v, 'name', 'value')}>")      # the text of a sample object: opaque, but the string is built
            continue
          if part.conversion == ord("r"):
            v = repr(v)
          elif part.conversion == ord("s"):
            v = str(v)
          spec = self.ev(part.format_spec, env, f, depth) if part.format_spec is not None else ""
          try:
            out.append(format(v, spec))
          except (TypeError, ValueError):
            raise Raised()
        else:
          raise NotConst("f-string part")
      return "".join(out)
    if isinstance(e, ast.Lambda):
      fi = FuncInfo("<lambda>", f"{f.qualname}.<lambda>", f.module, ast.FunctionDef(name="<lambda>", args=e.args, body=[ast.Return(value=e.body)], decorator_list=[], lineno=e.lineno), f.cls, f)
      return ("closure", fi, env)
    raise NotConst(type(e).__name__)

  def _enum_table(self, ci, f):
    """name -> member of an Enum class of the package (aliases included), in definition order."""
    out = {}
    for name, expr in self.ix.enum_members(ci):
      try:
        val = self.ce.ev(ci.module, expr, ci)
      except NotConst:
        val = Sym(unparse(expr))
      out[name] = EnumMember(ci.qualname, name, val)
    return out

  def _record_method(self, rec, name):
    ci_ = rec.get("__class__") or next((c for c in self.ix.classes.values() if c.name == rec["__record__"]), None)
    return self.ix.lookup_method(ci_, name) if ci_ is not None else None

  def _enum_fields(self, member, depth=0):
    """the instance fields an enumeration's __init__ gives a member (run once per member on its value tuple)"""
    cache = self.__dict__.setdefault("_enum_inst", {})
    key = (member.cls, member.name)
    if key in cache:
      return cache[key]
    cache[key] = flds = {}
    ci = self.ix.classes.get(member.cls)
    init = self.ix.lookup_method(ci, "__init__") if ci is not None else None
    if init is not None:
      val = member.value
      if isinstance(val, Sym):
        # the value is built from calls (colours ...): evaluate the member's expression here
        expr = dict(self.ix.enum_members(ci)).get(member.name)
        anyf = next(iter(ci.methods.values()))
        val = self.ev(expr, {}, anyf, depth + 1)
      args = list(val) if isinstance(val, tuple) else [val]
      self.call(init, [member] + args, None, {}, depth + 1)
    return flds

  def _class_regex(self, ci, name):
    """a class-level `NAME = re.compile(<constant pattern>)`"""
    import re as _re
    from .regexrules import regex_bindings
    cache = self.__dict__.setdefault("_rx_cls_cache", {})
    key = ci.module.name
    if key not in cache:
      cache[key] = {k: v[0] for k, v in regex_bindings(self.ix, ci.module).items() if "::" not in k and "." in k}
    for c in self.ix.mro(ci):
      pat = cache[key].get(f"{c.name}.{name}") if c.module is ci.module else None
      if pat is not None:
        try:
          return _re.compile(pat)
        except _re.error:
          raise Raised()
    return None

  def _regex_constant(self, f, name):
    """a module-level `NAME = re.compile(<constant pattern>)`: the compiled pattern (the pattern text is a constant of the source)"""
    import re as _re
    from .regexrules import regex_bindings
    cache = self.__dict__.setdefault("_rx_cache", {})
    key = f.module.name
    if key not in cache:
      cache[key] = {k: v[0] for k, v in regex_bindings(self.ix, f.module).items() if "::" not in k and "." not in k}
    pat = cache[key].get(name)
    return _re.compile(pat) if pat is not None else None

  @staticmethod
  def _cmp(op, a, b):
    try:
      if isinstance(op, ast.Is):
        return a is b or (isinstance(a, EnumMember) and a == b) or (isinstance(a, ClassInfo) and isinstance(b, ClassInfo) and a.qualname == b.qualname)
      if isinstance(op, ast.IsNot):
        return not (a is b or (isinstance(a, EnumMember) and a == b))
      if isinstance(op, ast.Eq):
        return a == b
      if isinstance(op, ast.NotEq):
        return a != b
      if isinstance(op, ast.Lt):
        return a < b
      if isinstance(op, ast.LtE):
        return a <= b
      if isinstance(op, ast.Gt):
        return a > b
      if isinstance(op, ast.GtE):
        return a >= b
      if isinstance(op, ast.In):
        return any(x is a or x == a for x in b) if isinstance(b, (list, tuple)) else a in b
      if isinstance(op, ast.NotIn):
        return not (any(x is a or x == a for x in b) if isinstance(b, (list, tuple)) else a in b)
    except TypeError:
      raise Raised()
    raise NotConst("comparison")

  def attribute(self, e, env, f, depth):
    if isinstance(e.value, ast.Name) and e.value.id == "numbers" and "numbers" not in env and e.attr in ("Number", "Real", "Rational", "Integral"):
      return (int,) if e.attr == "Integral" else (int, float, Fraction)        # the abstract numeric types, as the concrete types the package uses
    # a dotted name of the package (model.Br, styles.StyleProperties.Color, ISD._make_absolute)
    head = e
    while isinstance(head, ast.Attribute):
      head = head.value
    if isinstance(head, ast.Name) and head.id not in env:
      r = self.ix.resolve(f.module, e, cls=f.cls, func=f)
      if isinstance(r, ClassInfo):
        return r
      if isinstance(r, FuncInfo):
        return ("closure", r, {})
    # module / class constants (enum members, tables)
    try:
      base = self.ev(e.value, env, f, depth)
    except NotConst:
      try:
        return self.ce.ev(f.module, e, f.cls)
      except NotConst:
        r = self.ix.resolve(f.module, e, cls=f.cls, func=f)
        if isinstance(r, (ClassInfo, FuncInfo)):
          return r if isinstance(r, ClassInfo) else ("closure", r, {})
        raise NotConst(f"attribute {unparse(e)[:40]}")
    if isinstance(base, Node):
      if e.attr in base.fields:
        return base.fields[e.attr]
      raise NotConst(f"field {e.attr} of a sample node")
    if isinstance(base, dict) and base.get("__record__"):
      if e.attr in base:
        return base[e.attr]
      raise Raised()
    if isinstance(base, ClassInfo):
      if e.attr == "__members__" and self.ix.is_enum(base):
        return self._enum_table(base, f)
      rx_ = self._class_regex(base, e.attr)
      if rx_ is not None:
        return rx_
      if self.ix.is_enum(base):
        tbl_ = self._enum_table(base, f)
        if e.attr in tbl_:
          return tbl_[e.attr]
      m = self.ix.lookup_method(base, e.attr)
      if m is not None:
        return ("closure", m, {})
      nested = base.nested.get(e.attr)
      if nested is not None:
        return nested
      try:
        return self.ce.ev(f.module, e, f.cls)
      except NotConst:
        raise NotConst(f"class attribute {e.attr}")
    if isinstance(base, (Fraction, int)) and e.attr in ("numerator", "denominator"):
      return getattr(base, e.attr)
    if isinstance(base, EnumMember) and e.attr not in ("name", "value"):
      flds = self._enum_fields(base, depth)
      if e.attr in flds:
        return flds[e.attr]
      ci_ = self.ix.classes.get(base.cls)
      m_ = self.ix.lookup_method(ci_, e.attr) if ci_ is not None else None
      if m_ is not None:
        return ("closure", m_, {"__self__": base})
      raise Raised()
    if isinstance(base, EnumMember):
      if e.attr == "name":
        return base.name
      if e.attr == "value":
        if not isinstance(base.value, Sym):
          return base.value
        # a member whose value is built by a constructor of the package (NamedColors.x = ColorType(..)): built as a record
        ci = self.ix.classes.get(base.cls)
        expr = dict(self.ix.enum_members(ci)).get(base.name) if ci is not None else None
        anym = next(iter(ci.methods.values()), None) if ci is not None else None
        ctxf = anym or next((g for g in self.ix.funcs_in(ci.module.name)), None) if ci is not None else None
        if expr is not None and ctxf is not None:
          return self.ev(expr, {}, ctxf, depth + 1)
      raise NotConst(f"attribute {e.attr} of an enum member")
    if isinstance(base, tuple) and hasattr(base, "_fields") and e.attr in base._fields:
      return getattr(base, e.attr)
    if base is None:
      raise Raised()
    raise NotConst(f"attribute {e.attr} of {type(base).__name__}")

  _BUILTIN_TYPES = {"str": str, "int": int, "float": float, "bool": bool, "list": list, "tuple": tuple, "dict": dict, "set": set, "bytes": bytes, "Fraction": Fraction, "Number": (int, float, Fraction)}

  def call_expr(self, e, env, f, depth):
    fn = e.func
    if isinstance(fn, ast.Name) and fn.id == "isinstance" and "isinstance" not in env and len(e.args) == 2:
      spec_nodes = e.args[1].elts if isinstance(e.args[1], ast.Tuple) else [e.args[1]]
      spec_nodes = [ast.Name(id="Number", ctx=ast.Load()) if unparse(s_) in ("numbers.Number", "numbers.Real", "numbers.Rational") else s_ for s_ in spec_nodes]
      if any(isinstance(s_, ast.Name) and s_.id in self._BUILTIN_TYPES and s_.id not in env for s_ in spec_nodes):
        v_ = self.ev(e.args[0], env, f, depth)
        if isinstance(v_, (Node, EnumMember)) or (isinstance(v_, dict) and v_.get("__record__")) or v_ is None:
          prim = False
        elif isinstance(v_, (str, int, float, Fraction, list, tuple, dict, set, bytes)):
          prim = any(isinstance(s_, ast.Name) and s_.id in self._BUILTIN_TYPES and isinstance(v_, self._BUILTIN_TYPES[s_.id]) and not (s_.id == "int" and False) for s_ in spec_nodes)
        else:
          raise NotConst("isinstance of an opaque value")
        if prim:
          return True
        rest = [s_ for s_ in spec_nodes if not (isinstance(s_, ast.Name) and s_.id in self._BUILTIN_TYPES and s_.id not in env)]
        if not rest:
          return False
        e = ast.Call(func=fn, args=[ast.Constant(value=None), ast.Tuple(elts=rest, ctx=ast.Load())], keywords=[])
        specs_ = [self.ev(s_, env, f, depth) for s_ in rest]
        if isinstance(v_, Node):
          return self.kind_matches(v_, tuple(specs_))
        names_ = {s_.name for s_ in specs_ if isinstance(s_, ClassInfo)}
        if isinstance(v_, dict) and v_.get("__record__"):
          return v_["__record__"] in names_
        if isinstance(v_, EnumMember):
          return any(isinstance(s_, ClassInfo) and s_.qualname == v_.cls for s_ in specs_)
        return ("Number" in names_ and isinstance(v_, (int, Fraction, float))) or type(v_).__name__ in names_
    args = []
    for a in e.args:
      if isinstance(a, ast.Starred):
        args.extend(self.iterate(self.ev(a.value, env, f, depth)))
      else:
        args.append(self.ev(a, env, f, depth))
    kwargs = {k.arg: self.ev(k.value, env, f, depth) for k in e.keywords if k.arg is not None}
    if isinstance(fn, ast.Name) and fn.id in self.opaque:
      self.trace.append(("opaque", fn.id, tuple(args)))
      r_ = self.opaque_results.get(fn.id)
      return r_() if callable(r_) else r_
    # builtins
    if isinstance(fn, ast.Name) and fn.id not in env:
      b = fn.id
      if b in ("list", "tuple", "set", "frozenset", "sorted", "reversed", "iter"):
        seq = self.iterate(args[0]) if args else []
        if b == "iter":
          return seq if hasattr(seq, "__next__") else iter(list(seq))
        if b == "list":
          return list(seq)
        if b == "tuple":
          return tuple(seq)
        if b in ("set", "frozenset"):
          return set(seq)
        if b == "reversed":
          return list(reversed(seq))
        try:
          return sorted(seq)
        except TypeError:
          raise NotConst("sorted() of sample nodes")
      if b in ("map", "filter") and len(args) >= 2:
        fn_ = args[0]
        seqs = [self.iterate(a_) for a_ in args[1:]]
        def _apply(*xs):
          if isinstance(fn_, tuple) and fn_ and fn_[0] == "closure":
            return self.call(fn_[1], list(xs), None, {k: v for k, v in fn_[2].items() if k != "__self__"}, depth + 1)
          if fn_ is None and b == "filter":
            return xs[0]
          raise NotConst(f"{b}() with a callee outside the package")
        if b == "map":
          return [_apply(*xs) for xs in zip(*seqs)]
        return [x for x in seqs[0] if self.truth(_apply(x))]
      if b == "type" and len(args) == 1:
        if isinstance(args[0], Node):
          ci_ = self.node_classes.get(args[0].kind) or self.ix.classes.get(f"ttconv.model:{args[0].kind}")
          if ci_ is not None:
            return ci_
        if isinstance(args[0], EnumMember):
          ci_ = self.ix.classes.get(args[0].cls)
          if ci_ is not None:
            return ci_
        if isinstance(args[0], (str, int, float, Fraction, list, tuple, set, bytes, bool)) or args[0] is None or (isinstance(args[0], dict) and not args[0].get("__record__")):
          return type(args[0])
        raise NotConst("type() of a value without a class of the package")
      if b in ("ceil", "floor", "trunc", "isclose", "gcd") and all(isinstance(a_, (int, float, Fraction)) for a_ in args):
        import math as _math
        try:
          return getattr(_math, b)(*args)
        except (TypeError, ValueError, OverflowError):
          raise Raised()
      if b in ("staticmethod", "classmethod", "property") and len(args) == 1 and b != "property":
        return args[0]           # the function itself: calls through the class reach it with the arguments given
      if b in ("ord", "chr") and len(args) == 1:
        try:
          return ord(args[0]) if b == "ord" else chr(args[0])
        except (TypeError, ValueError):
          raise Raised()
      if b == "str" and len(args) == 1 and isinstance(args[0], dict) and args[0].get("__record__"):
        m_ = self._record_method(args[0], "__str__")
        if m_ is None:
          raise NotConst("str() of a record without __str__")
        return self.call(m_, [args[0]], None, {}, depth + 1)
      if b == "dict":
        return dict(args[0]) if args else dict(kwargs)
      if b == "len":
        v = args[0]
        if isinstance(v, dict) and v.get("__record__"):
          m_ = self._record_method(v, "__len__")
          if m_ is None:
            raise Raised()
          return self.call(m_, [v], None, {}, depth + 1)
        return len(v.children) if isinstance(v, Node) else len(v)
      if b == "isinstance":
        if isinstance(args[0], Node):
          return self.kind_matches(args[0], args[1])
        specs = args[1] if isinstance(args[1], (tuple, list)) else [args[1]]
        flat_ = []
        for s_ in specs:
          flat_.extend(s_ if isinstance(s_, tuple) and all(isinstance(x_, type) for x_ in s_) else [s_])
        specs = flat_
        pyt_ = tuple(s_ for s_ in specs if isinstance(s_, type))
        if pyt_ and not isinstance(args[0], (Node, EnumMember)) and not (isinstance(args[0], dict) and args[0].get("__record__")) and args[0] is not None:
          if isinstance(args[0], pyt_) and not (isinstance(args[0], bool) and bool not in pyt_ and int not in pyt_):
            return True
        names = {s.name for s in specs if isinstance(s, ClassInfo)}
        if args[0] is None:
          return False
        if isinstance(args[0], EnumMember):
          return any(isinstance(s, ClassInfo) and s.qualname == args[0].cls for s in specs)
        if isinstance(args[0], dict) and args[0].get("__record__"):
          return args[0]["__record__"] in names
        if isinstance(args[0], (int, Fraction, str, list, tuple, dict, set)):
          return type(args[0]).__name__ in names or ("Number" in names and isinstance(args[0], (int, Fraction)))
        raise NotConst("isinstance of an opaque value")
      if b == "enumerate":
        return list(enumerate(self.iterate(args[0]), *(args[1:] or [kwargs.get("start", 0)])))
      if b == "zip":
        return list(zip(*[self.iterate(a) for a in args]))
      if b == "range":
        return list(range(*args))
      if b in ("min", "max", "sum", "abs", "any", "all", "int", "bool", "str", "round", "next", "float", "divmod", "pow", "repr", "hash"):
        try:
          if b in ("any", "all", "sum", "min", "max") and len(args) == 1:
            args = [self.iterate(args[0])]
          if b == "next":
            if hasattr(args[0], "__next__"):
              try:
                return next(args[0])
              except StopIteration:
                if len(args) > 1:
                  return args[1]
                raise Raised()
            seq = self.iterate(args[0])       # next(<generator expression>): its first item
            if seq:
              return seq[0]
            if len(args) > 1:
              return args[1]
            raise Raised()
          if b in ("repr", "str", "hash") and args and isinstance(args[0], (Node, dict, EnumMember, Sym, ClassInfo)):
            raise NotConst(f"{b}() of a sample object")
          return {"min": min, "max": max, "sum": sum, "abs": abs, "any": any, "all": all, "int": int, "bool": bool, "str": str, "round": round, "float": float, "divmod": divmod, "pow": pow,
                  "repr": repr, "hash": hash}[b](*args)
        except (TypeError, ValueError, ZeroDivisionError, OverflowError):
          raise Raised()
      if b == "Fraction":
        try:
          return Fraction(*args)
        except (TypeError, ValueError, ZeroDivisionError):
          raise Raised()
    # the standard regex module applied to constants of the source
    if isinstance(fn, ast.Attribute) and isinstance(fn.value, ast.Name) and fn.value.id == "re" and "re" not in env:
      import re as _re
      if fn.attr in ("compile", "escape") and len(args) == 1 and isinstance(args[0], str):
        try:
          return getattr(_re, fn.attr)(args[0])
        except _re.error:
          raise Raised()
      if fn.attr == "sub" and len(args) == 3 and all(isinstance(a, str) for a in args):
        return _re.sub(*args)
      raise NotConst(f"re.{fn.attr}")
    if isinstance(fn, ast.Attribute) and isinstance(fn.value, ast.Name) and fn.value.id == "math" and "math" not in env and fn.attr in ("ceil", "floor", "trunc", "gcd", "isclose", "fabs") \
        and all(isinstance(a_, (int, float, Fraction)) for a_ in args):
      import math as _math
      try:
        return getattr(_math, fn.attr)(*args)
      except (TypeError, ValueError, OverflowError):
        raise Raised()
    if isinstance(fn, ast.Attribute) and isinstance(fn.value, ast.Name) and fn.value.id == "html" and "html" not in env and fn.attr in ("unescape", "escape") \
        and args and isinstance(args[0], str):
      import html as _html
      return getattr(_html, fn.attr)(*args, **kwargs)
    # unbound methods of str and the pure functions of unicodedata, applied to constants
    if isinstance(fn, ast.Attribute) and isinstance(fn.value, ast.Name) and fn.value.id in ("str", "unicodedata") and fn.value.id not in env:
      if fn.value.id == "str" and hasattr(str, fn.attr) and not fn.attr.startswith("_") and fn.attr not in ("format_map",):
        try:
          return getattr(str, fn.attr)(*args)
        except (TypeError, ValueError):
          raise Raised()
      if fn.value.id == "unicodedata" and fn.attr in ("normalize", "category", "combining", "name", "lookup", "decomposition") and all(isinstance(a, str) for a in args):
        import unicodedata as _ud
        try:
          return getattr(_ud, fn.attr)(*args)
        except (TypeError, ValueError, KeyError):
          raise Raised()
    # super().m(...): the next definition of m in the method resolution order of the enclosing class
    if isinstance(fn, ast.Attribute) and isinstance(fn.value, ast.Call) and isinstance(fn.value.func, ast.Name) and fn.value.func.id == "super" and not fn.value.args \
        and f.cls is not None and "super" not in self.opaque:
      this_ = env.get("self", env.get("cls"))
      if isinstance(this_, Node):
        if this_.kind in self.node_classes:
          for c_ in self.ix.mro(f.cls)[1:]:
            if fn.attr in c_.methods:
              return self.call(c_.methods[fn.attr], [this_] + list(args), kwargs, {}, depth + 1)
        return self.node_call(this_, fn.attr, args, kwargs, f, depth)      # the base class's effect on a sample node
      for c_ in self.ix.mro(f.cls)[1:]:
        if fn.attr in c_.methods:
          return self.call(c_.methods[fn.attr], [this_] + list(args), kwargs, {}, depth + 1)
      if fn.attr == "__init__":
        return None         # object.__init__ / Enum.__init__
      raise NotConst(f"super().{fn.attr}")
    # callee value
    callee = None
    recv = None
    if isinstance(fn, ast.Attribute):
      # method on a value?
      try:
        recv = self.ev(fn.value, env, f, depth)
      except NotConst:
        recv = NotConst
      if recv is not NotConst:
        if isinstance(recv, Node):
          return self.node_call(recv, fn.attr, args, kwargs, f, depth)
        if isinstance(recv, EnumMember):
          ci_ = self.ix.classes.get(recv.cls)
          m_ = self.ix.lookup_method(ci_, fn.attr) if ci_ is not None else None
          if m_ is None:
            raise NotConst(f"method {fn.attr} of an enumeration member")
          if fn.attr != "__init__":
            self._enum_fields(recv, depth)
          return self.call(m_, ([recv] if not m_.is_static else []) + list(args), kwargs, {}, depth + 1)
        if isinstance(recv, list):
          return self._list_method(recv, fn.attr, args)
        import re as _re
        if isinstance(recv, _re.Pattern):
          if fn.attr in ("match", "fullmatch", "search") and len(args) == 1 and isinstance(args[0], str):
            return getattr(recv, fn.attr)(args[0])
          if fn.attr == "sub" and len(args) == 2 and isinstance(args[1], str):
            repl = args[0]
            if isinstance(repl, str):
              return recv.sub(repl, args[1])
            if isinstance(repl, tuple) and repl and repl[0] == "closure":
              def _cb(m_, _r=repl):
                v_ = self.call(_r[1], [m_], None, {k: v for k, v in _r[2].items()}, depth + 1)
                if not isinstance(v_, str):
                  raise NotConst("regex callback result")
                return v_
              return recv.sub(_cb, args[1])
          raise NotConst(f"pattern.{fn.attr}")
        if isinstance(recv, _re.Match):
          if fn.attr in ("group", "groups", "start", "end", "span", "groupdict"):
            try:
              return getattr(recv, fn.attr)(*args)
            except (IndexError, TypeError):
              raise Raised()
          raise NotConst(f"match.{fn.attr}")
        if isinstance(recv, str):
          if hasattr(str, fn.attr) and not fn.attr.startswith("_") and fn.attr not in ("format_map", "maketrans"):   # str is immutable: every method is a pure function
            try:
              return getattr(recv, fn.attr)(*args)
            except (TypeError, ValueError, IndexError, KeyError):
              raise Raised()
          raise NotConst(f"str.{fn.attr}")
        if isinstance(recv, (Fraction, int, float)) and not isinstance(recv, bool) and fn.attr in ("limit_denominator", "as_integer_ratio", "is_integer", "bit_length", "conjugate", "__floor__", "__ceil__", "__round__", "__trunc__"):
          try:
            return getattr(recv, fn.attr)(*args)
          except (TypeError, ValueError, ZeroDivisionError, AttributeError):
            raise Raised()
        if isinstance(recv, set):
          if fn.attr in ("add", "discard", "update", "remove"):
            try:
              getattr(recv, fn.attr)(*args)
            except (KeyError, TypeError):
              raise Raised()
            return None
          raise NotConst(f"set.{fn.attr}")
        if isinstance(recv, dict) and recv.get("__record__") and fn.attr not in ("get", "items", "keys", "values"):
          # a method of the record's class, bound to the record
          ci_ = recv.get("__class__") or next((c for c in self.ix.classes.values() if c.name == recv["__record__"]), None)
          m_ = self.ix.lookup_method(ci_, fn.attr) if ci_ is not None else None
          if m_ is None:
            raise NotConst(f"method {fn.attr} of a record")
          return self.call(m_, [recv] + list(args), kwargs, {}, depth + 1)
        if isinstance(recv, dict):
          if fn.attr in ("get", "items", "keys", "values", "setdefault", "pop", "update", "copy"):
            try:
              r = getattr(recv, fn.attr)(*args)
            except (KeyError, TypeError):
              raise Raised()
            return list(r) if fn.attr in ("items", "keys", "values") else r
          raise NotConst(f"dict.{fn.attr}")
        if isinstance(recv, ClassInfo):
          m = self.ix.lookup_method(recv, fn.attr)
          if m is not None:
            is_cm = any(unparse(d_) == "classmethod" for d_ in m.node.decorator_list)
            callee = ("closure", m, {"__self__": recv} if is_cm else {})
        elif isinstance(recv, tuple) and recv and recv[0] == "closure":
          callee = recv
        elif isinstance(recv, Sym) or recv is None:
          if recv is None:
            raise Raised()
      if callee is None:
        d = unparse(fn)
        if d.split(".")[0] in ("LOGGER", "logging") or d in self.opaque or fn.attr in self.opaque:
          self.trace.append(("opaque", d, tuple(args)))
          r_ = self.opaque_results.get(d, self.opaque_results.get(fn.attr))
          return r_() if callable(r_) else r_
        r = self.ix.resolve(f.module, fn, cls=f.cls, func=f)
        if isinstance(r, FuncInfo):
          callee = ("closure", r, {})
        elif isinstance(r, ClassInfo):
          callee = r
        elif isinstance(fn.value, ast.Name) and fn.value.id in ("self", "cls") and f.cls is not None:
          m = self.ix.lookup_method(f.cls, fn.attr)
          if m is not None:
            callee = ("closure", m, {"__self__": env.get(fn.value.id)})
    else:
      v = self.ev(fn, env, f, depth) if not (isinstance(fn, ast.Name) and fn.id not in env and self.ix.resolve(f.module, fn, cls=f.cls, func=f) is None) else None
      callee = v
    if isinstance(callee, tuple) and callee and callee[0] == "closure":
      _, fi, clo = callee
      if fi.name in self.opaque or fi.qualname in self.opaque:
        self.trace.append(("opaque", fi.qualname, tuple(args)))
        return None
      a = list(args)
      # bound method: supply self / cls
      params = [x.arg for x in fi.node.args.posonlyargs + fi.node.args.args]
      if fi.cls is not None and not fi.is_static and params and params[0] in ("self", "cls") and len(a) == len(params) - 1 - sum(1 for p in params[1:] if p in kwargs):
        a = [clo.get("__self__", env.get("self", env.get("cls")))] + a
      closure_env = {k: v for k, v in clo.items() if k != "__self__"}
      return self.call(fi, a, kwargs, closure_env, depth + 1)
    if isinstance(callee, ClassInfo) and any(c.qualname == "ttconv.model:ContentElement" for c in self.ix.mro(callee)):
      # a model element constructed by the interpreted code: a fresh sample node (its constructor arguments kept)
      n_ = Node(callee.name, f"new_{callee.name.lower()}{len(self.trace)}", (), ctor_args=tuple(args))
      if callee.name == "Text" and len(args) >= 2:
        n_.fields["text"] = args[1]
      self.trace.append(("new", n_, tuple(args)))
      return n_
    if isinstance(callee, ClassInfo) and self.ix.is_enum(callee) and len(args) == 1 and not kwargs:
      # Enum(value): the member with that value (or the member itself); ValueError otherwise
      if isinstance(args[0], EnumMember) and args[0].cls == callee.qualname:
        return args[0]
      for m_ in self._enum_table(callee, f).values():
        if isinstance(m_.value, Sym):
          raise NotConst("enum look-up by value among opaque values")
        if type(m_.value) is type(args[0]) and m_.value == args[0]:
          return m_
      raise Raised()
    if isinstance(callee, ClassInfo) and "__init__" in callee.methods and not any("dataclass" in unparse(d_) for d_ in callee.node.decorator_list) \
        and not any(c_.qualname in ("ttconv.model:ContentElement", "ttconv.model:Document") for c_ in self.ix.mro(callee)) and callee.qualname.split(":")[0] in self.init_modules:
      rec = {"__record__": callee.name, "__class__": callee}
      self.call(callee.methods["__init__"], [rec] + list(args), kwargs, {}, depth + 1)
      return rec
    if isinstance(callee, ClassInfo):
      # a record (NamedTuple / dataclass of the package) built from sample values
      fields = list(callee.field_order) or list(callee.ann)
      rec = {"__record__": callee.name}
      for k, v in zip(fields, args):
        rec[k] = v
      rec.update(kwargs)
      # declared defaults of the remaining fields
      for k in fields:
        if k not in rec and k in callee.assigns:
          try:
            rec[k] = self.ce.ev(callee.module, callee.assigns[k], callee)
          except NotConst:
            pass
      return rec
    raise NotConst(f"call {unparse(fn)[:50]}")

  def _list_method(self, recv, name, args):
    try:
      if name in ("append", "extend", "insert", "pop", "reverse", "clear", "remove", "index", "count", "copy", "sort"):
        if name == "extend":
          recv.extend(self.iterate(args[0]))
          return None
        if name == "remove":
          for i, x in enumerate(recv):
            if x is args[0] or x == args[0]:
              del recv[i]
              return None
          raise Raised()
        r = getattr(recv, name)(*args)
        return r
    except (IndexError, ValueError, TypeError):
      raise Raised()
    raise NotConst(f"list.{name}")

  def node_call(self, node: Node, name: str, args, kwargs, f, depth):
    if name in self.node_methods:
      return self.node_methods[name](node, *args, **kwargs)
    ci = self.node_classes.get(node.kind)
    if ci is not None:
      m = self.ix.lookup_method(ci, name)
      if m is not None:
        return self.call(m, [node] + list(args), kwargs, None, depth + 1)
    if name in ("has_children",):
      return bool(node.children)
    if name in ("first_child",):
      return node.children[0] if node.children else None
    if name in ("last_child",):
      return node.children[-1] if node.children else None
    if name == "parent":
      return node.parent
    if name == "dfs_iterator" and not args:
      return list(node.walk())
    if name == "__iter__":
      return list(node.children)
    if name.startswith(("get_", "is_", "has_", "iter_")) and not kwargs:
      key = (name,) + tuple(a if isinstance(a, (str, int)) else getattr(a, "name", repr(a)) for a in args)
      if key in node.fields:
        return node.fields[key]
      if name in node.fields and not args:
        return node.fields[name]
      if name.startswith("get_") and name[4:] in node.fields and not args:
        return node.fields[name[4:]]
      if name.startswith("iter_") and not args:
        return list(node.fields.get(name[5:], []))
      raise NotConst(f"sample node has no value for {name}{args!r}")
    # an effect on the node: recorded; the child list follows pushes and removals
    self.trace.append((node, name, tuple(args)))
    if name == "push_child" and len(args) == 1 and isinstance(args[0], Node):
      if args[0].parent is not None:
        raise Raised()
      node.children.append(args[0])
      args[0].parent = node
    elif name == "push_children" and len(args) == 1:
      for c_ in self.iterate(args[0]):
        if isinstance(c_, Node):
          node.children.append(c_)
          c_.parent = node
    elif name == "remove_child" and len(args) == 1 and isinstance(args[0], Node):
      if not any(c_ is args[0] for c_ in node.children):
        raise Raised()
      node.children = [c_ for c_ in node.children if c_ is not args[0]]
      args[0].parent = None
    elif name == "remove" and not args:
      if node.parent is not None:
        node.parent.children = [c_ for c_ in node.parent.children if c_ is not node]
        node.parent = None
    elif name == "remove_children" and not args:
      for c_ in node.children:
        c_.parent = None
      node.children = []
    return None
