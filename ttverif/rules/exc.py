"""EXC: exception escape vs. handlers, with IDX (split-length bounds) supplying IndexError facts.

may_raise(f) = exception classes that can escape function f:
  explicit `raise X`; Enum[...] -> KeyError; Enum(x) -> ValueError; int/float/Fraction of a
  non-validated value -> ValueError; Fraction(a, b) / division by a non-constant -> ZeroDivisionError;
  constant subscript of a `.split()` result not proven in range -> IndexError; `assert` ->
  AssertionError; validating dataclass constructors (their __post_init__); calls to repo
  functions (transitively, class-hierarchy dispatch for cls.extract / model methods).
`try` statements remove what their handlers catch (builtin exception hierarchy aware).
Accepted idiom: int()/Fraction()/float() applied to `m.group(...)` is regex-validated.
"""
from __future__ import annotations

import ast
import builtins
import typing

from ..consteval import ConstEval, NotConst
from ..core import ClassInfo, FuncInfo, Index, call_name, dotted, own_nodes, parent, short, unparse
from ..typing_lite import Typer, strip_opt


def exc_is_subclass(name: str, base: str) -> bool:
  a, b = getattr(builtins, name, None), getattr(builtins, base, None)
  if isinstance(a, type) and isinstance(b, type):
    return issubclass(a, b)
  return name == base


def handler_types(h: ast.ExceptHandler) -> typing.List[str]:
  if h.type is None:
    return ["BaseException"]
  elts = h.type.elts if isinstance(h.type, ast.Tuple) else [h.type]
  return [(dotted(e) or "?").split(".")[-1] for e in elts]


class Raises:
  def __init__(self, ix: Index, ty: typing.Optional[Typer] = None):
    self.ix = ix
    self.ty = ty or Typer(ix)
    self.ce = ConstEval(ix, symbolic_ok=False)
    self.cache: typing.Dict[str, typing.Dict[str, str]] = {}
    self._busy: typing.Set[str] = set()
    self.model_elem = ix.cls("ttconv.model:ContentElement")
    self.model_doc = ix.cls("ttconv.model:ContentDocument")
    self.nonzero: typing.Set[typing.Tuple[str, str]] = set()   # (function, name) facts established by a supporting rule

  # -- public --------------------------------------------------------------------------
  def of_func(self, f: FuncInfo) -> typing.Dict[str, str]:
    """exception class -> one witness ('file:line construct')"""
    if f.qualname in self.cache:
      return self.cache[f.qualname]
    if f.qualname in self._busy:
      return {}
    self._busy.add(f.qualname)
    try:
      res = self.of_stmts(f, f.node.body, caught=[])
    finally:
      self._busy.discard(f.qualname)
    self.cache[f.qualname] = res
    return res

  def of_stmts(self, f: FuncInfo, stmts, caught) -> typing.Dict[str, str]:
    out: typing.Dict[str, str] = {}
    for st in stmts:
      self._merge(out, self.of_stmt(f, st, caught))
    return out

  @staticmethod
  def _merge(a, b):
    for k, v in b.items():
      a.setdefault(k, v)

  def of_stmt(self, f: FuncInfo, st, caught) -> typing.Dict[str, str]:
    out: typing.Dict[str, str] = {}
    w = lambda n: f"{f.module.rel}:{getattr(n, 'lineno', 0)} `{short(n, 60)}`"
    if isinstance(st, ast.Try):
      body = self.of_stmts(f, st.body, caught)
      remaining = dict(body)
      for h in st.handlers:
        ts = handler_types(h)
        got = [e for e in remaining if any(exc_is_subclass(e, t) for t in ts)]
        for e in got:
          del remaining[e]
        self._merge(out, self.of_stmts(f, h.body, caught + [ts]))
      self._merge(out, remaining)
      self._merge(out, self.of_stmts(f, st.orelse, caught))
      self._merge(out, self.of_stmts(f, st.finalbody, caught))
      return out
    if isinstance(st, ast.Raise):
      if st.exc is None:
        for t in (caught[-1] if caught else ["Exception"]):
          out.setdefault(t, w(st))
      else:
        name = (dotted(st.exc.func) if isinstance(st.exc, ast.Call) else dotted(st.exc)) or "Exception"
        if name.split(".")[-1] != "NotImplementedError":   # abstract methods: dispatch goes to the overrides
          out.setdefault(name.split(".")[-1], w(st))
        if isinstance(st.exc, ast.Call):
          for a in st.exc.args:
            self._merge(out, self.of_expr(f, a))
      return out
    if isinstance(st, ast.Assert):
      out.setdefault("AssertionError", w(st))
      self._merge(out, self.of_expr(f, st.test))
      return out
    if isinstance(st, (ast.FunctionDef, ast.AsyncFunctionDef, ast.ClassDef)):
      return out
    if isinstance(st, (ast.If, ast.While)):
      self._merge(out, self.of_expr(f, st.test))
      self._merge(out, self.of_stmts(f, st.body, caught))
      self._merge(out, self.of_stmts(f, st.orelse, caught))
      return out
    if isinstance(st, ast.For):
      self._merge(out, self.of_expr(f, st.iter))
      self._merge(out, self.of_stmts(f, st.body, caught))
      self._merge(out, self.of_stmts(f, st.orelse, caught))
      return out
    if isinstance(st, ast.With):
      for it in st.items:
        self._merge(out, self.of_expr(f, it.context_expr))
      self._merge(out, self.of_stmts(f, st.body, caught))
      return out
    for ch in ast.iter_child_nodes(st):
      if isinstance(ch, ast.expr):
        self._merge(out, self.of_expr(f, ch))
    return out

  # -- expressions ----------------------------------------------------------------------
  def of_expr(self, f: FuncInfo, e) -> typing.Dict[str, str]:
    out: typing.Dict[str, str] = {}
    w = lambda n: f"{f.module.rel}:{getattr(n, 'lineno', 0)} `{short(n, 60)}`"
    if e is None:
      return out
    for n in self._walk_expr(e):
      if isinstance(n, ast.Subscript) and isinstance(n.ctx, ast.Load):
        r = self.ix.resolve(f.module, n.value, cls=f.cls, func=f) if isinstance(n.value, (ast.Name, ast.Attribute)) else None
        if isinstance(r, ClassInfo) and self.ix.is_enum(r):
          if not self._membership_guarded(n):
            out.setdefault("KeyError", w(n))
        elif isinstance(n.slice, ast.Constant) and isinstance(n.slice.value, int) and isinstance(n.value, ast.Name):
          if self.is_split_result(f, n.value.id) and not self.index_proven(f, n):
            out.setdefault("IndexError", w(n))
      elif isinstance(n, ast.BinOp) and isinstance(n.op, (ast.Div, ast.FloorDiv, ast.Mod)):
        if isinstance(n.right, (ast.Name, ast.Attribute)) and self.ce.try_ev(f.module, n.right, f.cls, default=None) is None:
          if isinstance(n.right, ast.Name) and (f.qualname, n.right.id) in self.nonzero:
            continue
          if not (isinstance(n.right, ast.Name) and self._assigned_nonzero_const(f, n.right.id)):
            if isinstance(n.op, ast.Mod) and isinstance(n.left, (ast.Constant, ast.JoinedStr)):
              continue
            out.setdefault("ZeroDivisionError", w(n))
      elif isinstance(n, ast.Call):
        self._merge(out, self.of_call(f, n))
    return out

  @staticmethod
  def _membership_guarded(sub: ast.Subscript) -> bool:
    """Enum[x] inside `if x in Enum.__members__:` (or the matching conditional expression)."""
    want = f"{unparse(sub.slice)} in {unparse(sub.value)}.__members__"
    cur, par = sub, parent(sub)
    while par is not None and not isinstance(par, (ast.FunctionDef, ast.AsyncFunctionDef)):
      if isinstance(par, ast.If) and want in unparse(par.test) and any(cur is b or any(cur is y for y in ast.walk(b)) for b in par.body):
        return True
      if isinstance(par, ast.IfExp) and want in unparse(par.test) and any(cur is y for y in ast.walk(par.body)):
        return True
      cur, par = par, parent(par)
    return False

  def _walk_expr(self, e):
    stack = [e]
    while stack:
      n = stack.pop()
      if isinstance(n, ast.Lambda):
        continue
      yield n
      stack.extend(ast.iter_child_nodes(n))

  def _assigned_nonzero_const(self, f, name) -> bool:
    vals = []
    for st in own_nodes(f.node):
      if isinstance(st, ast.Assign) and any(isinstance(t, ast.Name) and t.id == name for t in st.targets):
        vals.append(self.ce.try_ev(f.module, st.value, f.cls, default=None))
    return bool(vals) and all(isinstance(v, (int, float)) and v != 0 for v in vals)

  def of_call(self, f: FuncInfo, c: ast.Call) -> typing.Dict[str, str]:
    out: typing.Dict[str, str] = {}
    w = f"{f.module.rel}:{getattr(c, 'lineno', 0)} `{short(c, 60)}`"
    fn = dotted(c.func) or ""
    last = fn.split(".")[-1]
    args = c.args

    def validated(a):
      return isinstance(a, ast.Constant) or (isinstance(a, ast.Call) and isinstance(a.func, ast.Attribute) and a.func.attr == "group") \
        or (isinstance(a, ast.Call) and isinstance(a.func, ast.Name) and a.func.id in ("int", "len", "ord", "round", "abs"))
    if fn in ("int", "float") and args:
      a = args[0]
      if isinstance(a, ast.IfExp):
        ok = validated(a.body) and validated(a.orelse)
      else:
        ok = validated(a) or self._is_numeric_name(f, a)
      if not ok:
        out.setdefault("ValueError", w)
      return out
    if last == "Fraction":
      if len(args) == 1 and not validated(args[0]) and not self._is_numeric_name(f, args[0]):
        out.setdefault("ValueError", w)
      if len(args) == 2:
        d = self.ce.try_ev(f.module, args[1], f.cls, default=None)
        if not (isinstance(d, int) and d != 0) and not self._guarded_nonzero(c, args[1]):
          out.setdefault("ZeroDivisionError", w)
      return out
    r = self.ix.resolve(f.module, c.func, cls=f.cls, func=f) if isinstance(c.func, (ast.Name, ast.Attribute)) else None
    if isinstance(r, ClassInfo):
      if self.ix.is_enum(r):
        out.setdefault("ValueError", w)
        return out
      if r.is_dataclass and self._ctor_constant_ok(f, r, c):
        return out
      for m in ("__post_init__", "__init__"):
        init = self.ix.lookup_method(r, m)
        if init is not None:
          self._merge(out, self.of_func(init))
      return out
    if isinstance(r, FuncInfo):
      self._merge(out, self.of_func(r))
      return out
    callee = self.ty.callee(f.module, c, self.ty.env(f), f.cls, f)
    if isinstance(callee, FuncInfo):
      targets = [callee]
      # dynamic dispatch on cls.<m>(...) inside a classmethod: all overriding subclasses
      if isinstance(c.func, ast.Attribute) and isinstance(c.func.value, ast.Name) and c.func.value.id in ("cls", "self") and f.cls is not None:
        for sub in self.ix.all_subclasses(f.cls):
          if c.func.attr in sub.methods:
            targets.append(sub.methods[c.func.attr])
      for t in targets:
        self._merge(out, self.of_func(t))
      return out
    if isinstance(callee, ClassInfo):
      for m in ("__post_init__", "__init__"):
        init = self.ix.lookup_method(callee, m)
        if init is not None:
          self._merge(out, self.of_func(init))
      return out
    # model mutators on untyped receivers
    if isinstance(c.func, ast.Attribute):
      name = c.func.attr
      if name in ("set_style", "set_region", "set_lang", "set_space", "set_begin", "set_end", "set_id", "push_child", "push_children", "add_animation_step", "set_text"):
        m = self.ix.lookup_method(self.model_elem, name)
        if m is not None:
          self._merge(out, self.of_func(m))
          for sub in self.ix.all_subclasses(self.model_elem):
            if name in sub.methods and sub.module.name == "ttconv.model":
              self._merge(out, self.of_func(sub.methods[name]))
      elif name in ("put_initial_value", "put_region", "set_body", "set_cell_resolution", "set_px_resolution", "set_active_area", "set_display_aspect_ratio"):
        m = self.ix.lookup_method(self.model_doc, name)
        if m is not None:
          self._merge(out, self.of_func(m))
      elif name == "to_model" and unparse(c.func.value) in ("prop",):
        sp = self.ix.classes.get("ttconv.imsc.style_properties:StyleProperty")
        if sp is not None:
          self._merge(out, self.of_func(sp.methods["to_model"]))
    return out

  def _ctor_constant_ok(self, f, r: ClassInfo, c: ast.Call) -> bool:
    """A validating dataclass constructed from constants: evaluate its __post_init__ on them."""
    from ..consteval import FuncEval, Raised
    pi = r.methods.get("__post_init__")
    if pi is None:
      return True
    fields = [n for n in r.field_order if n in r.ann and n not in r.nested]
    env = {}
    try:
      for name in fields:
        if name in r.assigns:
          env[f"self.{name}"] = self.ce.ev(r.module, r.assigns[name], r)
      for name, a in zip(fields, c.args):
        env[f"self.{name}"] = self.ce.ev(f.module, a, f.cls)
      for kw in c.keywords:
        env[f"self.{kw.arg}"] = self.ce.ev(f.module, kw.value, f.cls)
      if len(env) < len(fields):
        return False
      FuncEval(self.ix).call(pi, env)
      return True
    except Raised:
      return False
    except NotConst:
      return False

  def _is_numeric_name(self, f, a) -> bool:
    if isinstance(a, ast.Name):
      t = self.ty.env(f).get(a.id) if isinstance(f, FuncInfo) else None
      for arg in f.node.args.args:
        if arg.arg == a.id and arg.annotation is not None and unparse(arg.annotation) in ("int", "float", "Fraction", "numbers.Number", "Number"):
          return True
      # assigned from a numeric expression (parse_length result components etc.)
      for st in own_nodes(f.node):
        if isinstance(st, ast.Assign):
          for t_ in st.targets:
            if isinstance(t_, ast.Tuple) and any(isinstance(x, ast.Name) and x.id == a.id for x in t_.elts) and "parse_length" in unparse(st.value):
              return True
    return False

  @staticmethod
  def _guarded_nonzero(node, e) -> bool:
    """`e` is known non-zero where node is evaluated: a condition that reaches node (enclosing test, or early exit before
    it) has `e > 0` / `e != 0` as a conjunct when it holds, or `e <= 0` / `e == 0` / `e < 1` as a disjunct when it is known to fail."""
    from . import match as _m
    t = unparse(e).replace(" ", "")
    fnode = node
    while fnode is not None and not isinstance(fnode, (ast.FunctionDef, ast.AsyncFunctionDef)):
      fnode = parent(fnode)
    if fnode is None:
      return False

    def parts(test, op):
      if isinstance(test, ast.BoolOp) and isinstance(test.op, op):
        out = []
        for v in test.values:
          out.extend(parts(v, op))
        return out
      return [test]
    for test, pol in _m.reaching_conditions(node, fnode):
      if isinstance(test, ast.UnaryOp) and isinstance(test.op, ast.Not):
        test, pol = test.operand, not pol
      if pol:
        for c in parts(test, ast.And):
          tt = unparse(c).replace(" ", "")
          if tt in (f"{t}>0", f"{t}!=0", f"0<{t}", f"{t}>=1", f"0!={t}"):
            return True
      else:
        for c in parts(test, ast.Or):
          tt = unparse(c).replace(" ", "")
          if tt in (f"{t}<=0", f"{t}==0", f"{t}<1", f"0>={t}", f"0=={t}", f"not{t}"):
            return True
    # the conditional expression `a / e if e > 0 else b`
    cur, par = node, parent(node)
    while par is not None and not isinstance(par, (ast.FunctionDef, ast.AsyncFunctionDef)):
      if isinstance(par, ast.IfExp):
        tt = unparse(par.test).replace(" ", "")
        if any(cur is y for y in ast.walk(par.body)) and (f"{t}>0" in tt or f"{t}!=0" in tt or f"0<{t}" in tt):
          return True
      cur, par = par, parent(par)
    return False

  # -- IDX -----------------------------------------------------------------------------
  def is_split_result(self, f: FuncInfo, name: str) -> bool:
    for st in own_nodes(f.node):
      if isinstance(st, ast.Assign) and any(isinstance(t, ast.Name) and t.id == name for t in st.targets):
        if isinstance(st.value, ast.Call) and isinstance(st.value.func, ast.Attribute) and st.value.func.attr == "split":
          return True
    return False

  def index_proven(self, f: FuncInfo, sub: ast.Subscript) -> bool:
    """Interval of len(s) at the subscript, from dominating tests of the forms
    `len(s) <op> k` whose failing branch raises / returns, and enclosing if/elif `len(s) == k`."""
    name = sub.value.id
    k = sub.slice.value
    lo, hi = 1, None     # str.split() with a separator returns at least one item
    eq = None
    # enclosing branch conditions
    cur, par = sub, parent(sub)
    while par is not None and par is not f.node:
      if isinstance(par, ast.If):
        in_body = any(x is cur for x in par.body) or cur is par.test and False
        in_body = any(cur is b or any(cur is y for y in ast.walk(b)) for b in par.body)
        in_else = any(cur is b or any(cur is y for y in ast.walk(b)) for b in par.orelse)
        for (op, v) in self._len_tests(par.test, name):
          if in_body:
            lo, hi, eq = self._refine(lo, hi, eq, op, v, True)
          elif in_else:
            lo, hi, eq = self._refine(lo, hi, eq, op, v, False)
      if isinstance(par, ast.IfExp):
        in_body = any(cur is y for y in ast.walk(par.body))
        in_else = any(cur is y for y in ast.walk(par.orelse))
        for (op, v) in self._len_tests(par.test, name):
          if in_body:
            lo, hi, eq = self._refine(lo, hi, eq, op, v, True)
          elif in_else:
            lo, hi, eq = self._refine(lo, hi, eq, op, v, False)
      cur, par = par, parent(par)
    # earlier guards in the same function that exit: `if <len test>: raise/return`
    stmt = sub
    while parent(stmt) is not None and not isinstance(stmt, ast.stmt):
      stmt = parent(stmt)
    for g in own_nodes(f.node):
      if isinstance(g, ast.If) and g.lineno < getattr(stmt, "lineno", 0) and g.body and isinstance(g.body[-1], (ast.Raise, ast.Return)) and not g.orelse:
        # the guard must be in a block that encloses (or precedes at the same level) the subscript
        if not self._precedes(g, stmt):
          continue
        tests = self._len_tests_bool(g.test, name)
        if tests is None:
          continue
        kind, items = tests
        if kind == "single" or kind == "or":
          for (op, v) in items:
            lo, hi, eq = self._refine(lo, hi, eq, op, v, False)
    idx = k if k >= 0 else None
    if eq is not None:
      return (k < eq) if k >= 0 else (-k <= eq)
    if k >= 0:
      return lo is not None and k < lo
    return lo is not None and -k <= lo

  @staticmethod
  def _precedes(g, stmt) -> bool:
    pg = parent(g)
    cur = stmt
    while cur is not None:
      if parent(cur) is pg:
        blk = None
        for fld in ("body", "orelse"):
          b = getattr(pg, fld, None)
          if isinstance(b, list) and g in b and cur in b:
            return b.index(g) < b.index(cur)
        return False
      cur = parent(cur)
    return False

  def _len_tests(self, test, name):
    """(op, k) for a single comparison `len(name) op k`."""
    out = []
    if isinstance(test, ast.Compare) and len(test.ops) == 1 and isinstance(test.left, ast.Call) and unparse(test.left) == f"len({name})":
      v = self.ce.try_ev(None, test.comparators[0], default=None) if False else (test.comparators[0].value if isinstance(test.comparators[0], ast.Constant) else None)
      if isinstance(v, int):
        out.append((type(test.ops[0]).__name__, v))
    return out

  def _len_tests_bool(self, test, name):
    if isinstance(test, ast.BoolOp) and isinstance(test.op, ast.Or):
      items = []
      for v in test.values:
        t = self._len_tests(v, name)
        if not t:
          return None
        items += t
      return ("or", items)
    t = self._len_tests(test, name)
    return ("single", t) if t else None

  @staticmethod
  def _refine(lo, hi, eq, op, v, truth):
    neg = {"Eq": "NotEq", "NotEq": "Eq", "Lt": "GtE", "LtE": "Gt", "Gt": "LtE", "GtE": "Lt"}
    if not truth:
      op = neg[op]
    if op == "Eq":
      eq = v
    elif op == "GtE":
      lo = max(lo or 0, v)
    elif op == "Gt":
      lo = max(lo or 0, v + 1)
    elif op == "LtE":
      hi = v if hi is None else min(hi, v)
    elif op == "Lt":
      hi = v - 1 if hi is None else min(hi, v - 1)
    return lo, hi, eq


def uncaught_at(r: Raises, f: FuncInfo, call: ast.Call) -> typing.Dict[str, str]:
  """Exception classes raised by `call` that are not caught by a handler enclosing it inside f."""
  raised = r.of_call(f, call)
  for a in call.args:
    r._merge(raised, r.of_expr(f, a))
  cur, par = call, parent(call)
  while par is not None and par is not f.node:
    if isinstance(par, ast.Try) and any(cur is b or any(cur is y for y in ast.walk(b)) for b in par.body):
      for h in par.handlers:
        ts = handler_types(h)
        for e in [e for e in raised if any(exc_is_subclass(e, t) for t in ts)]:
          del raised[e]
    cur, par = par, parent(par)
  return raised
