"""A small heap evaluator for the link-maintaining methods of ttconv.model.ContentElement.

It interprets the source of push_child / remove_child (the only writers of the five link fields,
rule OWN-links) on explicit little heaps: objects are dictionaries of fields, statements are the subset
those methods use (attribute stores, `if` over identity / None tests, raising guards).  Nothing of ttconv
is imported or run.  A statement outside the subset raises NotConst, which the caller reports as
UNDECIDED, never as a verdict."""
from __future__ import annotations

import ast
import typing

from ..consteval import NotConst, Raised
from ..core import ClassInfo, FuncInfo, Index, unparse


class Obj:
  __slots__ = ("name", "fields")

  def __init__(self, name):
    self.name = name
    self.fields: typing.Dict[str, typing.Any] = {}

  def __repr__(self):
    return self.name


class HeapEval:
  MAX_STEPS = 2000

  def __init__(self, ix: Index, cls: ClassInfo, skip_guards=True):
    self.ix, self.cls = ix, cls
    self.skip_guards = skip_guards
    self.steps = 0

  # -- expressions ------------------------------------------------------------------------
  def ev(self, e, env):
    self.steps += 1
    if self.steps > self.MAX_STEPS:
      raise NotConst("evaluation does not end")
    if isinstance(e, ast.Constant):
      return e.value
    if isinstance(e, ast.Name):
      if e.id in env:
        return env[e.id]
      raise NotConst(f"name {e.id}")
    if isinstance(e, ast.Attribute):
      base = self.ev(e.value, env)
      if isinstance(base, Obj):
        return base.fields.get(e.attr)
      if base is None:
        raise Raised()          # attribute of None
      raise NotConst(f"attribute of {type(base).__name__}")
    if isinstance(e, ast.UnaryOp) and isinstance(e.op, ast.Not):
      return not self.ev(e.operand, env)
    if isinstance(e, ast.BoolOp):
      v = None
      for x in e.values:
        v = self.ev(x, env)
        if isinstance(e.op, ast.And) and not v:
          return v
        if isinstance(e.op, ast.Or) and v:
          return v
      return v
    if isinstance(e, ast.Compare) and len(e.ops) == 1:
      a, b = self.ev(e.left, env), self.ev(e.comparators[0], env)
      op = e.ops[0]
      if isinstance(op, (ast.Is, ast.Eq)):
        return a is b
      if isinstance(op, (ast.IsNot, ast.NotEq)):
        return a is not b
      if isinstance(op, (ast.In, ast.NotIn)) and isinstance(b, list):
        r = any(x is a for x in b)
        return r if isinstance(op, ast.In) else not r
      raise NotConst("comparison")
    if isinstance(e, ast.Call):
      # list(x) / iter(x) over an element: its children, by the interpreted chain of the reference fields
      if isinstance(e.func, ast.Name) and e.func.id in ("list", "tuple") and len(e.args) == 1:
        v = self.ev(e.args[0], env)
        if isinstance(v, Obj):
          return self.children(v)
        if isinstance(v, list):
          return list(v)
        raise NotConst("list() of a non-element")
      if isinstance(e.func, ast.Attribute):
        recv = self.ev(e.func.value, env)
        if recv is None:
          raise Raised()
        if isinstance(recv, Obj):
          m = self.ix.lookup_method(self.cls, e.func.attr)
          if m is not None and not e.keywords:
            args = [self.ev(a, env) for a in e.args]
            return self.call(m, recv, args)
      raise NotConst(f"call {unparse(e)[:40]}")
    raise NotConst(type(e).__name__)

  def children(self, parent: Obj):
    """Children as __iter__ of the class yields them: interpreted from its source."""
    it = self.ix.lookup_method(self.cls, "__iter__")
    if it is None:
      raise NotConst("no __iter__")
    out = []
    env = {it.params[0]: parent}
    self._gen_block(it.node.body, env, out)
    return out

  def _gen_block(self, stmts, env, out):
    for st in stmts:
      if isinstance(st, ast.Expr) and isinstance(st.value, ast.Constant):
        continue
      if isinstance(st, ast.Expr) and isinstance(st.value, ast.Yield):
        out.append(self.ev(st.value.value, env))
        if len(out) > 32:
          raise Raised()        # a cyclic chain: iteration would not end
      elif isinstance(st, ast.Assign) and len(st.targets) == 1 and isinstance(st.targets[0], ast.Name):
        env[st.targets[0].id] = self.ev(st.value, env)
      elif isinstance(st, ast.While) and not st.orelse:
        while self.ev(st.test, env):
          self._gen_block(st.body, env, out)
      elif isinstance(st, ast.If):
        self._gen_block(st.body if self.ev(st.test, env) else st.orelse, env, out)
      else:
        raise NotConst(f"__iter__: statement {type(st).__name__}")

  # -- statements -------------------------------------------------------------------------
  def call(self, m: FuncInfo, recv: Obj, args):
    params = m.params
    if len(args) != len(params) - 1:
      raise NotConst("arity")
    env = {params[0]: recv}
    env.update(dict(zip(params[1:], args)))
    try:
      self.block(m.node.body, env)
    except _Ret as r:
      return r.value
    return None

  @staticmethod
  def _is_guard(st):
    return isinstance(st, ast.If) and not st.orelse and st.body and isinstance(st.body[-1], ast.Raise)

  def block(self, stmts, env):
    for st in stmts:
      if isinstance(st, ast.Expr) and isinstance(st.value, ast.Constant):
        continue
      if isinstance(st, ast.Pass):
        continue
      if isinstance(st, ast.Return):
        raise _Ret(self.ev(st.value, env) if st.value is not None else None)
      if isinstance(st, ast.Raise):
        raise Raised()
      if self._is_guard(st):
        try:
          t = self.ev(st.test, env)
        except NotConst:
          if self.skip_guards:
            continue          # a precondition about something the little heap does not model (documents): assumed to hold
          raise
        if t:
          raise Raised()
        continue
      if isinstance(st, ast.If):
        self.block(st.body if self.ev(st.test, env) else st.orelse, env)
        continue
      if isinstance(st, ast.Assign) and len(st.targets) == 1:
        v = self.ev(st.value, env)
        t = st.targets[0]
        if isinstance(t, ast.Name):
          env[t.id] = v
        elif isinstance(t, ast.Attribute):
          base = self.ev(t.value, env)
          if base is None:
            raise Raised()
          if not isinstance(base, Obj):
            raise NotConst("store into a non-element")
          base.fields[t.attr] = v
        else:
          raise NotConst("assignment target")
        continue
      if isinstance(st, ast.While) and not st.orelse:
        while self.ev(st.test, env):
          self.block(st.body, env)
        continue
      if isinstance(st, ast.Expr) and isinstance(st.value, ast.Call):
        self.ev(st.value, env)
        continue
      raise NotConst(f"statement {type(st).__name__} at line {st.lineno}")


class _Ret(Exception):
  def __init__(self, value):
    self.value = value
