"""RAISE-guard: a method that always raises (`Ruby.push_child`: "children must be added using
push_children") must not be called on a receiver that may be an instance of that class.

The classes that a parser's cursor attribute (`self.parent`) can hold are collected from the
assignments to it (constructor calls, helpers with a return annotation); every call
`self.<attr>.<m>(...)` where <m> always raises for one of those classes must lie on the false side
of an `isinstance(self.<attr>, <that class>)` test."""
from __future__ import annotations

import ast
import typing

from ..cfg import CFG, fact_holds_at
from ..core import ClassInfo, FuncInfo, Index, own_nodes, short, unparse


def always_raises(f: FuncInfo) -> typing.Optional[str]:
  body = f.node.body
  if body and isinstance(body[0], ast.Expr) and isinstance(body[0].value, ast.Constant) and isinstance(body[0].value.value, str):
    body = body[1:]
  if len(body) == 1 and isinstance(body[0], ast.Raise) and body[0].exc is not None:
    e = body[0].exc
    return unparse(e.func if isinstance(e, ast.Call) else e).split(".")[-1]
  return None


def cursor_classes(ix: Index, cls: ClassInfo, attr: str) -> typing.Set[ClassInfo]:
  out = set()
  for m in cls.methods.values():
    local = {}
    for st in own_nodes(m.node):
      if isinstance(st, ast.Assign) and len(st.targets) == 1 and isinstance(st.value, ast.Call):
        r = ix.resolve(m.module, st.value.func, cls=cls, func=m)
        t = None
        if isinstance(r, ClassInfo):
          t = r
        elif isinstance(r, FuncInfo) and r.node.returns is not None:
          rr = ix.resolve(r.module, r.node.returns, cls=r.cls, func=r)
          t = rr if isinstance(rr, ClassInfo) else None
        elif isinstance(st.value.func, ast.Attribute) and isinstance(st.value.func.value, ast.Name) and st.value.func.value.id == "self":
          mm = ix.lookup_method(cls, st.value.func.attr)
          if mm is not None and mm.node.returns is not None:
            rr = ix.resolve(mm.module, mm.node.returns, cls=mm.cls, func=mm)
            t = rr if isinstance(rr, ClassInfo) else None
        if t is not None and isinstance(st.targets[0], ast.Name):
          local.setdefault(st.targets[0].id, set()).add(t)
        if t is not None and unparse(st.targets[0]) == f"self.{attr}":
          out.add(t)
    for st in own_nodes(m.node):
      if isinstance(st, ast.Assign) and len(st.targets) == 1 and unparse(st.targets[0]) == f"self.{attr}" and isinstance(st.value, ast.Name):
        out |= local.get(st.value.id, set())
  return out


def check_forbidden_receivers(ctx, cls: ClassInfo, attr: str = "parent", rule="RAISE-guard", implications=None):
  """implications: {class name: predicate(test, polarity) -> bool} - further condition edges that
  exclude the class by an invariant the caller has verified."""
  ix = ctx.ix
  ctx.unit(cls.module)
  held = cursor_classes(ix, cls, attr)
  forbidden: typing.Dict[str, typing.List[typing.Tuple[ClassInfo, str]]] = {}
  for c in held:
    for k in ix.mro(c)[:1]:
      for name, m in k.methods.items():
        exc = always_raises(m)
        if exc is not None:
          forbidden.setdefault(name, []).append((c, exc))
  n = 0
  for m in cls.methods.values():
    cfg = None
    for call in own_nodes(m.node):
      if isinstance(call, ast.Call) and isinstance(call.func, ast.Attribute) and unparse(call.func.value) == f"self.{attr}" and call.func.attr in forbidden:
        if cfg is None:
          cfg = CFG(m.node)
        nid = cfg.stmt_node_containing(call)
        for c, exc in forbidden[call.func.attr]:
          n += 1

          def not_that_class(test, pol, c=c):
            # isinstance(self.<attr>, C...) false edge, or a positive isinstance of classes that exclude C
            if implications and c.name in implications and implications[c.name](test, pol):
              return True
            t = test
            neg = False
            while isinstance(t, ast.UnaryOp) and isinstance(t.op, ast.Not):
              neg = not neg
              t = t.operand
            if isinstance(t, ast.Call) and unparse(t.func) == "isinstance" and len(t.args) == 2 and unparse(t.args[0]) == f"self.{attr}":
              names = {unparse(x).split(".")[-1] for x in (t.args[1].elts if isinstance(t.args[1], ast.Tuple) else [t.args[1]])}
              truth = pol != neg
              if c.name in names and not truth:
                return True
              if c.name not in names and truth and not any(ix.is_subclass(c, k) for k in ix.classes.values() if k.name in names and k.module is c.module):
                return True
            return False
          ok = nid is not None and fact_holds_at(cfg, nid, not_that_class)
          ctx.check(ok, rule, f"{m.qualname}|{short(call, 50)}|not {c.name}", ctx.where(m.module, call), f"reached only when self.{attr} is not a {c.name}",
                    f"`{short(call, 60)}`: self.{attr} can be a {c.name} here (it is assigned one in this class), and {c.name}.{call.func.attr} always raises {exc}: "
                    f"input that puts this construct directly inside a {c.name.lower()} makes the reader fail with an internal error")
  return n
