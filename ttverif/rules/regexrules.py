"""Rules about regular-expression constants of the package.  The pattern text is a constant of the source
(evaluated by ConstEval, parsed with the standard library's regex parser); ttconv is not run."""
from __future__ import annotations

import ast
import re
import typing

try:
  import re._parser as _sre_parse      # Python >= 3.11
  import re._constants as _sre_c
except ImportError:                    # pragma: no cover
  import sre_parse as _sre_parse
  import sre_constants as _sre_c

from ..consteval import ConstEval, NotConst
from ..core import AnalysisError, ClassInfo, FuncInfo, Index, Module, dotted, own_nodes, short, unparse


def _compile_arg(e) -> typing.Optional[ast.AST]:
  if isinstance(e, ast.Call) and (dotted(e.func) or "").split(".")[-1] == "compile" and (dotted(e.func) or "").split(".")[0] in ("re", "regex") and e.args:
    return e.args[0]
  return None


def regex_bindings(ix: Index, m: Module) -> typing.Dict[str, typing.Tuple[str, ast.AST, typing.Optional[ClassInfo], typing.Optional[FuncInfo]]]:
  """text of the receiver (`_RE`, `Cls._RE`, local name) -> (pattern, node, class, function) for every
  `X = re.compile(<constant>)` at module, class or function level of m."""
  ce = ConstEval(ix, symbolic_ok=False)
  out = {}

  def add(key, arg, node, cls, func):
    try:
      v = ce.ev(m, arg, cls)
    except NotConst:
      return
    if isinstance(v, str):
      out[key] = (v, node, cls, func)
  for st in m.tree.body:
    if isinstance(st, ast.Assign) and len(st.targets) == 1 and isinstance(st.targets[0], ast.Name) and _compile_arg(st.value) is not None:
      add(st.targets[0].id, _compile_arg(st.value), st, None, None)
  for c in ix.classes.values():
    if c.module is not m:
      continue
    for name, val in c.assigns.items():
      if _compile_arg(val) is not None:
        add(f"{c.name}.{name}", _compile_arg(val), c.assign_nodes.get(name, val), c, None)
  for f in ix.funcs_in(m.name):
    for st in own_nodes(f.node):
      if isinstance(st, ast.Assign) and len(st.targets) == 1 and isinstance(st.targets[0], ast.Name) and _compile_arg(st.value) is not None:
        add(f"{f.qualname}::{st.targets[0].id}", _compile_arg(st.value), st, f.cls, f)
  return out


def _ends_anchored(items) -> bool:
  """The parsed pattern cannot match a proper prefix of the subject: it ends with `$` / `\\Z`, or with `.*`,
  or every alternative of a final alternation does."""
  items = list(items)
  while items:
    op, av = items[-1]
    if op is _sre_c.AT and av in (_sre_c.AT_END, _sre_c.AT_END_STRING):
      return True
    if op is _sre_c.MAX_REPEAT and av[1] == _sre_c.MAXREPEAT and len(av[2]) == 1 and av[2][0][0] is _sre_c.ANY:
      return True          # `.*`: consumes the rest of a one-line subject
    if op is _sre_c.SUBPATTERN:
      return _ends_anchored(av[3])
    if op is _sre_c.BRANCH:
      return all(_ends_anchored(b) for b in av[1])
    return False
  return False


def check_whole_value(ctx, modules: typing.Iterable[Module], rule="REGEX-whole", exempt: typing.Optional[typing.Dict[str, str]] = None):
  """`R.match(value)` accepts any subject that merely *begins* with a match.  Where the subject is a whole attribute
  or configuration value, a pattern without an end anchor (`$`, `\\Z`, or a trailing `.*`) makes `10frames`, `30fps`
  or `#ff0000 please` well-formed.  Every `.match` use of a compiled constant of the modules is checked;
  `.fullmatch` needs no anchor, `.search` / `.sub` / `.finditer` are deliberate partial matches."""
  ix = ctx.ix
  n = 0
  for m in modules:
    binds = regex_bindings(ix, m)
    if not binds:
      continue
    ctx.unit(m)
    for f in ix.funcs_in(m.name):
      for c in own_nodes(f.node):
        if not (isinstance(c, ast.Call) and isinstance(c.func, ast.Attribute) and c.func.attr in ("match", "fullmatch")):
          continue
        recv = unparse(c.func.value)
        b = binds.get(recv) or binds.get(f"{f.qualname}::{recv}") or binds.get(recv.split(".", 1)[-1] if recv.startswith(("self.", "cls.")) and f.cls else "") \
          or (binds.get(f"{f.cls.name}.{recv.split('.', 1)[-1]}") if f.cls is not None and recv.startswith(("self.", "cls.")) else None)
        if b is None:
          continue
        pat = b[0]
        n += 1
        if c.func.attr == "fullmatch":
          ctx.ok(rule, f"{f.qualname}|{recv}.fullmatch", ctx.where(f.module, c), "fullmatch: the whole value must match")
          continue
        key = f"{f.qualname}|{recv}.match"
        why = (exempt or {}).get(key)
        if why:
          ctx.ok(rule, key + "|tabled", ctx.where(f.module, c), "tabled: " + why)
          continue
        try:
          parsed = _sre_parse.parse(pat)
        except re.error as e:
          raise AnalysisError(f"{m.name}: pattern of {recv} does not parse ({e})")
        ctx.check(_ends_anchored(parsed), rule, key, ctx.where(f.module, c), f"pattern `{pat[:60]}` is end-anchored",
                  f"`{short(c, 60)}` matches a prefix: the pattern `{pat[:70]}` has no end anchor, so a value that continues with arbitrary text after a well-formed beginning "
                  f"is accepted as well-formed instead of being rejected / ignored (use fullmatch or `$`)")
  return n


def check_bare_dot_alternative(ctx, modules: typing.Iterable[Module], rule="LINT-m"):
  """`(:|;|.|,)`: an alternation of one-character alternatives one of which is an unescaped `.` - the `.` already matches
  every character, so the listed literals are redundant: the author meant a literal dot.  Found by parsing every
  constant pattern (compiled constants and the string constants they are built from)."""
  ix = ctx.ix
  n = 0
  for m in modules:
    for key, (pat, node, cls, func) in regex_bindings(ix, m).items():
      n += 1
      try:
        parsed = _sre_parse.parse(pat)
      except re.error:
        continue
      bad = []

      def walk(items):
        for op, av in items:
          if op is _sre_c.BRANCH:
            alts = av[1]
            if len(alts) >= 2 and any(len(a) == 1 and a[0][0] is _sre_c.ANY for a in alts) and any(len(a) == 1 and a[0][0] is _sre_c.LITERAL for a in alts):
              bad.append("|".join("." if a[0][0] is _sre_c.ANY else (chr(a[0][1]) if a[0][0] is _sre_c.LITERAL else "...") for a in alts if len(a) == 1))
            for a in alts:
              walk(a)
          elif op is _sre_c.SUBPATTERN:
            walk(av[3])
          elif op in (_sre_c.MAX_REPEAT, _sre_c.MIN_REPEAT):
            walk(av[2])
      walk(parsed)
      if bad:
        ctx.unit(m)
        ctx.bad(rule, f"{m.name}:{key}|({bad[0]})", ctx.where(m, node),
                f"the pattern of {key} contains the alternation `({bad[0]})`: the unescaped `.` matches any character, which makes the literal alternatives beside it redundant - "
                f"a literal dot was meant, and any separator character is accepted")
  return n


def inline_patterns(ix: Index, m: Module):
  """`re.sub(<constant pattern>, ...)` / `re.match(<constant pattern>, ...)` calls inside functions: key `<function>::re.<method>`."""
  ce = ConstEval(ix, symbolic_ok=False)
  out = {}
  for f in ix.funcs_in(m.name):
    for c in own_nodes(f.node):
      if isinstance(c, ast.Call) and isinstance(c.func, ast.Attribute) and isinstance(c.func.value, ast.Name) and c.func.value.id == "re" \
          and c.func.attr in ("sub", "match", "fullmatch", "search", "split", "findall") and c.args:
        try:
          v = ce.ev(m, c.args[0], f.cls)
        except NotConst:
          continue
        if isinstance(v, str):
          out[f"{f.qualname}::re.{c.func.attr}"] = (v, c, f.cls, f, c.func.attr, c.args[1] if len(c.args) > 1 else None)
  return out


def check_probes(ctx, module_names: typing.Iterable[str], probes: dict, rule="FIN-regex"):
  """Every pattern of the probe table, compiled from its source text and applied the way its use sites apply it (match /
  fullmatch / search, or sub with the site's replacement), accepts the specification's well-formed values with the expected
  captures and rejects its near misses."""
  ix = ctx.ix
  n = 0
  names = set(module_names)
  for (mod, key), spec in sorted(probes.items()):
    if mod not in names:
      continue
    m = ix.modules.get(mod)
    if m is None:
      raise AnalysisError(f"module {mod} of the regex probe table not found")
    binds = regex_bindings(ix, m)
    inl = inline_patterns(ix, m)
    ctx.unit(m)
    if key in inl:
      pat, node, _cls, f, meth, repl = inl[key]
      if "sub" in spec:
        ce = ConstEval(ix, symbolic_ok=False)
        try:
          r = ce.ev(m, repl, f.cls)
        except NotConst:
          raise AnalysisError(f"{key}: the replacement is not a constant")
        rx = re.compile(pat)
        wrong = [(a, rx.sub(r, a), want) for (a, want) in spec["sub"] if rx.sub(r, a) != want]
        n += 1
        ctx.check(not wrong, rule, f"{mod}|{key}", ctx.where(m, node), f"{len(spec['sub'])} substitution probes ({spec['spec']})",
                  (f"`re.sub({pat!r}, {r!r}, ..)` gives {wrong[0][1]!r} for {wrong[0][0]!r}, the specification gives {wrong[0][2]!r} ({spec['spec']}); {len(wrong)} of {len(spec['sub'])} probes differ") if wrong else "")
      continue
    if key not in binds:
      raise AnalysisError(f"{mod}: the pattern `{key}` of the probe table is not bound to a constant pattern any more")
    pat, node, cls, func = binds[key]
    # methods the use sites apply
    recv_names = {key, key.split("::")[-1], key.split(".")[-1]}
    meths = set()
    for f in ix.funcs_in(mod):
      for c in own_nodes(f.node):
        if isinstance(c, ast.Call) and isinstance(c.func, ast.Attribute) and c.func.attr in ("match", "fullmatch", "search") and unparse(c.func.value).split(".")[-1] in {x.split(".")[-1] for x in recv_names}:
          if unparse(c.func.value) in recv_names or unparse(c.func.value).endswith("." + key.split(".")[-1]) or unparse(c.func.value) == key.split(".")[-1]:
            meths.add(c.func.attr)
    if not meths:
      raise AnalysisError(f"{mod}: no match / fullmatch / search use of `{key}` found")
    rx = re.compile(pat)
    wrong = []
    for meth in sorted(meths):
      for (text, groups) in spec.get("accept", ()):
        mo = getattr(rx, meth)(text)
        if mo is None:
          wrong.append(f"{meth}({text!r}) is rejected, the specification accepts it")
        elif groups is not None and tuple(mo.groups()[:len(groups)]) != tuple(groups) and tuple(g for g in mo.groups()) != tuple(groups):
          wrong.append(f"{meth}({text!r}) captures {mo.groups()}, expected {groups}")
      for text in spec.get("reject", ()):
        if getattr(rx, meth)(text) is not None:
          wrong.append(f"{meth}({text!r}) is accepted, the specification rejects it")
    n += 1
    ctx.check(not wrong, rule, f"{mod}|{key}", ctx.where(m, node), f"{len(spec.get('accept', ())) + len(spec.get('reject', ()))} probes x {sorted(meths)} ({spec['spec']})",
              f"pattern `{pat[:70]}` of {key}: " + "; ".join(wrong[:3]) + f" ({len(wrong)} probe(s) differ; {spec['spec']})")
  return n
