"""FMT: printer / parser agreement.

A printer (``__str__`` / ``to_string`` / f-string) is reduced to a *skeleton*: a sequence of
literal pieces, formatted integer fields (with their format spec) and finite choices (e.g. the
separator attribute set through ``set_separator``).  Representative outputs are instantiated
from the skeleton (stdlib ``format`` on sample integers) and must be accepted - as a whole and
with every named group recovering the printed digits - by the regular expression the
corresponding reader compiles (stdlib ``re`` on the extracted pattern literal).  No repository
code is executed: both sides are literals taken from the syntax tree.
"""
from __future__ import annotations

import ast
import itertools
import re
import typing

from ..consteval import ConstEval, NotConst
from ..core import AnalysisError, ClassInfo, FuncInfo, Index, Module, dotted, own_nodes, short, unparse


class Lit:
  def __init__(self, s):
    self.s = s

  def __repr__(self):
    return f"Lit({self.s!r})"


class Field:
  def __init__(self, name, spec):
    self.name = name
    self.spec = spec

  def __repr__(self):
    return f"Field({self.name},{self.spec!r})"


class Choice:
  def __init__(self, name, options):
    self.name = name
    self.options = sorted(options)

  def __repr__(self):
    return f"Choice({self.name},{self.options})"


class Skeleton:
  """String skeleton extractor for the idioms used by the time-code printers."""

  def __init__(self, ix: Index):
    self.ix = ix
    self.ce = ConstEval(ix, symbolic_ok=False)

  def of_method(self, f: FuncInfo, choices: typing.Dict[str, typing.Set[str]], branch: typing.Optional[int] = None):
    """Skeleton of the value returned by f. If f has several returns, `branch` selects one."""
    rets = [n for n in own_nodes(f.node) if isinstance(n, ast.Return) and n.value is not None]
    if not rets:
      raise AnalysisError(f"{f.qualname}: no return value")
    if branch is None:
      if len(rets) != 1:
        raise AnalysisError(f"{f.qualname}: {len(rets)} return statements, branch not selected")
      branch = 0
    return self.of_expr(f, rets[branch].value, choices)

  def of_variants(self, f: FuncInfo, choices: typing.Dict[str, typing.Set[str]], max_paths=16):
    """[(conditions, skeleton, return node)] for every path through f that returns a value:
    `conditions` maps the text of each if-test decided on the path to its truth value.  Locals
    assigned on the path are inlined, so `if c: sep = ";" else: sep = ":"; return a + sep + b` gives
    the same two variants as two return statements."""
    from . import match

    class Need(Exception):
      def __init__(self, key):
        self.key = key
    out, work, seen = [], [{}], set()
    while work:
      asg = work.pop()
      if len(out) + len(work) > max_paths:
        raise AnalysisError(f"{f.qualname}: too many printer variants")

      def decide(test, asg=asg):
        k = unparse(test)
        if k not in asg:
          raise Need(k)
        return asg[k]
      try:
        kind, val = match.path_result(f.node, decide)
      except Need as n:
        work.append(dict(asg, **{n.key: True}))
        work.append(dict(asg, **{n.key: False}))
        continue
      except match.PathUndecided as e:
        raise AnalysisError(f"{f.qualname}: printer path cannot be followed ({e})")
      sig = tuple(sorted(asg.items()))
      if kind == "return" and val is not None and sig not in seen:
        seen.add(sig)
        out.append((dict(asg), self.of_expr(f, val, choices), val))
    if not out:
      raise AnalysisError(f"{f.qualname}: no returned string found")
    return sorted(out, key=lambda t: sorted(t[0].items()))

  def of_expr(self, f: FuncInfo, e, choices) -> list:
    if isinstance(e, ast.Constant) and isinstance(e.value, str):
      return [Lit(e.value)]
    if isinstance(e, ast.BinOp) and isinstance(e.op, ast.Add):
      return self.of_expr(f, e.left, choices) + self.of_expr(f, e.right, choices)
    if isinstance(e, ast.JoinedStr):
      out = []
      for v in e.values:
        if isinstance(v, ast.Constant):
          out.append(Lit(str(v.value)))
        elif isinstance(v, ast.FormattedValue):
          spec = ""
          if v.format_spec is not None:
            spec = "".join(str(x.value) for x in v.format_spec.values if isinstance(x, ast.Constant))
          inner = v.value
          if isinstance(inner, ast.Attribute) and unparse(inner) in choices:
            out.append(Choice(unparse(inner), choices[unparse(inner)]))
          else:
            out.append(Field(unparse(inner), spec))
      return out
    if isinstance(e, ast.Call) and isinstance(e.func, ast.Attribute) and e.func.attr == "join" and len(e.args) == 1:
      sep = self.ce.try_ev(f.module, e.func.value, f.cls, default=None)
      if not isinstance(sep, str):
        raise AnalysisError(f"{f.qualname}: join separator `{short(e.func.value)}` is not a constant")
      g = e.args[0]
      if isinstance(g, (ast.GeneratorExp, ast.ListComp)) and len(g.generators) == 1 and isinstance(g.generators[0].iter, (ast.List, ast.Tuple)):
        var = g.generators[0].target.id if isinstance(g.generators[0].target, ast.Name) else None
        items = g.generators[0].iter.elts
        out = []
        for i, it in enumerate(items):
          if i:
            out.append(Lit(sep))
          sub = self.of_expr(f, g.elt, choices)
          for piece in sub:
            if isinstance(piece, Field) and piece.name == var:
              out.append(Field(unparse(it), piece.spec))
            else:
              out.append(piece)
        return out
      if isinstance(g, (ast.Tuple, ast.List)):
        out = []
        for i, it in enumerate(g.elts):
          if i:
            out.append(Lit(sep))
          out += self.of_expr(f, it, choices)
        return out
      raise AnalysisError(f"{f.qualname}: unrecognised join idiom `{short(e)}`")
    if isinstance(e, ast.Call) and isinstance(e.func, ast.Name) and e.func.id == "str" and len(e.args) == 1:
      if isinstance(e.args[0], (ast.Constant, ast.JoinedStr, ast.Attribute, ast.Name)) or (isinstance(e.args[0], ast.BinOp) and isinstance(e.args[0].op, ast.Add)):
        return self.of_expr(f, e.args[0], choices)
      return [Field(unparse(e.args[0]), "")]          # str(<any value>): one printed value
    if isinstance(e, ast.Attribute) and unparse(e) in choices:
      return [Choice(unparse(e), choices[unparse(e)])]
    if isinstance(e, (ast.Attribute, ast.Name)):
      return [Field(unparse(e), "")]
    raise AnalysisError(f"{f.qualname}: unrecognised string construction `{short(e)}`")


def instantiate(skel: list, samples: typing.Dict[str, typing.List[int]], default=(0, 7, 59)) -> typing.Iterator[typing.Tuple[str, dict]]:
  """All combinations of choices x a few sample value vectors for the fields."""
  fields = [p for p in skel if isinstance(p, Field)]
  choices = [p for p in skel if isinstance(p, Choice)]
  vectors = []
  n = max([len(samples.get(f.name, default)) for f in fields] + [len(default)])
  for k in range(n):
    vec = {}
    for f in fields:
      vals = samples.get(f.name, default)
      vec[id(f)] = vals[k % len(vals)]
    vectors.append(vec)
  for combo in itertools.product(*[c.options for c in choices]) if choices else [()]:
    cmap = {id(c): o for c, o in zip(choices, combo)}
    for vec in vectors:
      out = []
      vals = {}
      for p in skel:
        if isinstance(p, Lit):
          out.append(p.s)
        elif isinstance(p, Choice):
          out.append(cmap[id(p)])
        else:
          v = vec[id(p)]
          out.append(format(v, p.spec))
          vals[p.name] = v
      yield "".join(out), dict(vals, **{c.name: cmap[id(c)] for c in choices})


def pattern_literal(ix: Index, module: Module, name: str, cls: typing.Optional[ClassInfo] = None) -> str:
  """The regex source a module/class-level name is compiled from (re.compile(<const str>))."""
  ce = ConstEval(ix, symbolic_ok=False)
  top = (cls.assigns if cls is not None else None)
  expr = None
  if cls is not None and name in cls.assigns:
    expr = cls.assigns[name]
  else:
    v = ix.toplevel.get(module.name, {}).get(name)
    if isinstance(v, tuple) and v[0] == "assign":
      expr = v[2]
  if expr is None:
    raise AnalysisError(f"pattern {name} not found in {module.name}")
  if isinstance(expr, ast.Call) and (dotted(expr.func) or "").endswith("compile") and expr.args:
    expr = expr.args[0]
  try:
    val = ce.ev(module, expr, cls)
  except NotConst as e:
    raise AnalysisError(f"pattern {name} in {module.name} is not a constant string ({e})")
  if not isinstance(val, str):
    raise AnalysisError(f"pattern {name} in {module.name} is not a string")
  return val


def separator_choices(ix: Index, cls: ClassInfo, attr: str, setter: str) -> typing.Set[str]:
  """Values an attribute can take: the constant assigned in __init__ plus constant arguments
  of every call to `setter` in the package."""
  out = set()
  init = cls.methods.get("__init__")
  if init is not None:
    for n in own_nodes(init.node):
      if isinstance(n, ast.Assign) and len(n.targets) == 1 and isinstance(n.targets[0], ast.Attribute) and n.targets[0].attr == attr \
          and isinstance(n.value, ast.Constant) and isinstance(n.value.value, str):
        out.add(n.value.value)
  for f in ix.funcs.values():
    for n in own_nodes(f.node):
      if isinstance(n, ast.Call) and isinstance(n.func, ast.Attribute) and n.func.attr == setter and n.args \
          and isinstance(n.args[0], ast.Constant) and isinstance(n.args[0].value, str):
        out.add(n.args[0].value)
  return out
