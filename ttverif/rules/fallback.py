"""EXC-fallback: a malformed attribute is treated like an absent one.

For an `extract`-style function that reads one raw attribute value, every path on which an error
is logged (a handler of the conversion's exception, or an explicit syntax test followed by
LOGGER.error / warning) must return what the function returns when the attribute is absent.
Paths are enumerated syntactically (if / try / return / assignment of result locals); tests on
the raw value being None are decided by the mode, every other test is explored both ways."""
from __future__ import annotations

import ast
import typing

from ..core import AnalysisError, FuncInfo, own_nodes, short, unparse
from . import match


def _is_log(st) -> bool:
  return isinstance(st, ast.Expr) and isinstance(st.value, ast.Call) and unparse(st.value.func).split(".")[0] in ("LOGGER", "logging", "logger") \
    and unparse(st.value.func).split(".")[-1] in ("error", "warning", "warn", "critical", "exception")


def returns_by_mode(f: FuncInfo, max_paths=400):
  """-> (raw variable, returns when absent, returns on error paths) as sets of expression texts (locals substituted)."""
  params = [p_ for p_ in f.params if p_ not in ("self", "cls")]
  raws = []
  for st in own_nodes(f.node):
    if isinstance(st, ast.Assign) and len(st.targets) == 1 and isinstance(st.targets[0], ast.Name) and isinstance(st.value, ast.Call) \
        and isinstance(st.value.func, ast.Attribute) and st.value.func.attr == "get" and params and unparse(st.value.func.value).split(".")[0] == params[0]:
      raws.append(st.targets[0].id)
  if len(set(raws)) != 1:
    return None, set(), set()          # no raw value, or several attributes read by one function (each has its own fallback)
  raw = raws[0]
  budget = [max_paths]
  cur_mode = ["absent"]

  def subst(e, env):
    class T(ast.NodeTransformer):
      def visit_Name(self, n):
        if isinstance(n.ctx, ast.Load) and n.id in env:
          return ast.parse(env[n.id], mode="eval").body
        return n

      def visit_IfExp(self, n):
        isnone = match.is_none_test(n.test, lambda x: isinstance(x, ast.Name) and x.id == raw)
        if isnone is not None:
          return self.visit(n.body if isnone == (cur_mode[0] == "absent") else n.orelse)
        return self.generic_visit(n)
    from ..core import clone
    return unparse(T().visit(clone(e))) if e is not None else "None"

  def run(stmts, env, mode, logged):
    """yields (kind, value, env, logged): kind in return / fall"""
    if budget[0] <= 0:
      raise AnalysisError(f"{f.qualname}: too many paths")
    if not stmts:
      yield ("fall", None, env, logged)
      return
    st, rest = stmts[0], stmts[1:]

    def cont(env2, logged2):
      yield from run(rest, env2, mode, logged2)
    if isinstance(st, ast.Return):
      budget[0] -= 1
      yield ("return", subst(st.value, env), env, logged)
    elif isinstance(st, ast.Raise):
      budget[0] -= 1
      yield ("raise", None, env, logged)
    elif _is_log(st):
      yield from cont(env, True)
    elif isinstance(st, ast.Assign) and len(st.targets) == 1 and isinstance(st.targets[0], ast.Name) and st.targets[0].id != raw:
      e2 = dict(env)
      txt = subst(st.value, env)
      if len(txt) < 200:
        e2[st.targets[0].id] = txt
      else:
        e2.pop(st.targets[0].id, None)
      yield from cont(e2, logged)
    elif isinstance(st, ast.If):
      isnone = match.is_none_test(st.test, lambda x: isinstance(x, ast.Name) and x.id == raw)
      truthy = isinstance(st.test, ast.Name) and st.test.id == raw
      falsy = isinstance(st.test, ast.UnaryOp) and isinstance(st.test.op, ast.Not) and isinstance(st.test.operand, ast.Name) and st.test.operand.id == raw
      if isnone is not None:
        branches = [st.body if (isnone == (mode == "absent")) else st.orelse]
      elif (truthy or falsy) and mode == "absent":
        branches = [st.orelse if truthy else st.body]
      else:
        branches = [st.body, st.orelse]
      for br in branches:
        for kind, val, e2, l2 in run(br, env, mode, logged):
          if kind == "fall":
            yield from cont(e2, l2)
          else:
            yield (kind, val, e2, l2)
    elif isinstance(st, ast.Try):
      # the body completes, or it raises at its first statement and a handler runs
      outcomes = list(run(st.body, env, mode, logged))
      if mode == "bad":
        for h in st.handlers:
          outcomes += list(run(h.body, env, mode, logged))
      for kind, val, e2, l2 in outcomes:
        if kind == "fall":
          for k3, v3, e3, l3 in run(st.finalbody, e2, mode, l2) if st.finalbody else [("fall", None, e2, l2)]:
            if k3 == "fall":
              yield from cont(e3, l3)
            else:
              yield (k3, v3, e3, l3)
        else:
          yield (kind, val, e2, l2)
    elif isinstance(st, (ast.For, ast.While, ast.With)):
      # loops are walked once through their body and once skipped
      for kind, val, e2, l2 in list(run(st.body, env, mode, logged)) + [("fall", None, env, logged)]:
        if kind == "fall":
          yield from cont(e2, l2)
        else:
          yield (kind, val, e2, l2)
    else:
      yield from cont(env, logged)
  absent = {v for k, v, _, _ in run(f.node.body, {}, "absent", False) if k == "return"} | ({"None"} if any(k == "fall" for k, *_ in run(f.node.body, {}, "absent", False)) else set())
  budget[0] = max_paths
  cur_mode[0] = "bad"
  errs = set()
  for k, v, _, l in run(f.node.body, {}, "bad", False):
    if l and k == "return":
      errs.add(v)
    elif l and k == "fall":
      errs.add("None")
  return raw, absent, errs


def check_error_fallbacks(ctx, funcs: typing.Iterable[FuncInfo], rule="EXC-fallback", exempt: typing.Optional[typing.Dict[str, str]] = None):
  exempt = exempt or {}
  n = 0
  for f in funcs:
    raw, absent, errs = returns_by_mode(f)
    if raw is None or not errs:
      continue
    ctx.unit(f.module)
    n += 1
    extra = sorted(errs - absent)
    key = f"{f.qualname}|a malformed value is treated like an absent one"
    if extra and f.qualname in exempt:
      ctx.ok(rule, key + "|exempt", ctx.where(f.module, f.node), "reasoned exception: " + exempt[f.qualname])
      continue
    ctx.check(not extra, rule, key, ctx.where(f.module, f.node), f"absent -> {sorted(absent)}; after an error message -> {sorted(errs)}",
              f"after logging an error about `{raw}` the function returns {extra}, but it returns {sorted(absent)} when the attribute is absent: a malformed value is not ignored, "
              "it silently becomes another value")
  return n
