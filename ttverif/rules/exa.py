"""EXA: exactness of time arithmetic.

No value that *may be a binary float produced by the repository's own arithmetic* reaches
 (1) a truncation (int / floor / ceil / 1-argument round) on a seconds->frames path, or
 (2) a model time sink (set_begin / set_end / DiscreteAnimationStep begin,end).

Numeric kinds (sets of atoms): int, frac (Fraction), intfloat (float of an integer: exact below
2**53), float (inexact binary float), str, none, unk (caller-supplied or unresolved: not blamed).
The analysis is flow-insensitive per function (a variable's kind is the union over its
assignments), interprocedural through return-kind summaries over resolved callees.
"""
from __future__ import annotations

import ast
import typing

from ..core import ClassInfo, FuncInfo, Index, call_name, dotted, own_nodes, short, unparse
from ..typing_lite import Typer, strip_opt

INT, FRAC, IFLOAT, FLOAT, STR, NONE, UNK = "int", "frac", "intfloat", "float", "str", "none", "unk"
QF = "quotfloat"   # correctly rounded quotient of two ints: floor/int of it is exact for |values| < 2**53 / divisor,
                   # but it is an inexact time value as soon as it is stored or used in further arithmetic
K = frozenset

TRUNC = {"int", "floor", "ceil", "trunc"}
TIME_SINKS = {"set_begin", "set_end"}


def _num(a):
  return a & {INT, FRAC, IFLOAT, FLOAT, UNK, QF}


def combine(op, A: frozenset, B: frozenset) -> frozenset:
  out = set()
  for a in _num(A) or {UNK}:
    for b in _num(B) or {UNK}:
      out.add(_comb1(op, a, b))
  return K(out)


def _comb1(op, a, b):
  if FLOAT in (a, b):
    return FLOAT
  if QF in (a, b):
    # int + quotient (h*3600 + ms/1000) keeps the "single rounding" character; anything else does not
    other = b if a == QF else a
    if isinstance(op, (ast.Add, ast.Sub)) and other in (INT, QF):
      return QF
    return FLOAT
  if isinstance(op, ast.Div):
    if a == INT and b == INT:
      return QF
    if IFLOAT in (a, b):
      return FLOAT
    if UNK in (a, b):
      return UNK
    return FRAC
  if isinstance(op, (ast.Add, ast.Sub, ast.Mult)):
    if IFLOAT in (a, b):
      other = b if a == IFLOAT else a
      if other in (INT, IFLOAT):
        return IFLOAT
      if other == FRAC:
        return FLOAT
      return UNK
    if UNK in (a, b):
      return UNK
    if FRAC in (a, b):
      return FRAC
    return INT
  if isinstance(op, (ast.FloorDiv, ast.Mod)):
    if IFLOAT in (a, b):
      return FLOAT if isinstance(op, ast.Mod) else IFLOAT
    if UNK in (a, b):
      return UNK
    if isinstance(op, ast.FloorDiv):
      return INT
    return FRAC if FRAC in (a, b) else INT
  return UNK


class Exactness:
  def __init__(self, ix: Index, ty: Typer):
    self.ix = ix
    self.ty = ty
    self.ret: typing.Dict[str, frozenset] = {}
    self.field: typing.Dict[typing.Tuple[str, str], frozenset] = {}
    self._var_cache: typing.Dict[str, dict] = {}
    self._busy: typing.Set[str] = set()
    self._by_name: typing.Dict[str, typing.List[FuncInfo]] = {}
    for f in ix.funcs.values():
      if f.cls is not None:
        self._by_name.setdefault(f.name, []).append(f)

  # -- annotations ----------------------------------------------------------------------
  def ann_kind(self, ann) -> typing.Optional[frozenset]:
    if ann is None:
      return None
    if isinstance(ann, ast.Constant) and isinstance(ann.value, str):
      try:
        ann = ast.parse(ann.value, mode="eval").body
      except SyntaxError:
        return None
    d = (dotted(ann) or "").split(".")[-1]
    if d == "int":
      return K({INT})
    if d == "Fraction":
      return K({FRAC})
    if d == "str":
      return K({STR})
    if d == "float":
      return K({UNK})
    if isinstance(ann, ast.Subscript):
      head = (dotted(ann.value) or "").split(".")[-1]
      if head == "Optional":
        k = self.ann_kind(ann.slice)
        return (k | {NONE}) if k else None
      if head == "Union" and isinstance(ann.slice, ast.Tuple):
        ks = [self.ann_kind(e) for e in ann.slice.elts]
        if all(k is not None for k in ks):
          return K(set().union(*ks))
    return None

  # -- per function variable kinds ------------------------------------------------------
  def var_kinds(self, f: FuncInfo) -> dict:
    if f.qualname in self._var_cache:
      return self._var_cache[f.qualname]
    env: typing.Dict[str, frozenset] = {}
    self._var_cache[f.qualname] = env
    if f.outer_func is not None:
      env.update(self.var_kinds(f.outer_func))
    a = f.node.args
    for arg in a.posonlyargs + a.args + a.kwonlyargs:
      k = self.ann_kind(arg.annotation)
      env[arg.arg] = k if k is not None else K({UNK})
    assigns: typing.Dict[str, list] = {}
    for n in own_nodes(f.node):
      if isinstance(n, ast.Assign):
        for t in n.targets:
          if isinstance(t, ast.Name):
            assigns.setdefault(t.id, []).append(("expr", n.value))
          elif isinstance(t, (ast.Tuple, ast.List)):
            for e in ast.walk(t):
              if isinstance(e, ast.Name):
                assigns.setdefault(e.id, []).append(("unk", None))
      elif isinstance(n, ast.AnnAssign) and isinstance(n.target, ast.Name):
        k = self.ann_kind(n.annotation)
        if n.value is not None:
          assigns.setdefault(n.target.id, []).append(("expr", n.value))
        elif k is not None:
          assigns.setdefault(n.target.id, []).append(("kind", k))
      elif isinstance(n, ast.AugAssign) and isinstance(n.target, ast.Name):
        assigns.setdefault(n.target.id, []).append(("aug", n))
      elif isinstance(n, (ast.For, ast.comprehension)):
        for e in ast.walk(n.target):
          if isinstance(e, ast.Name):
            assigns.setdefault(e.id, []).append(("unk", None))
      elif isinstance(n, ast.NamedExpr) and isinstance(n.target, ast.Name):
        assigns.setdefault(n.target.id, []).append(("expr", n.value))
    for name in assigns:
      if name not in env or name not in f.params:
        env[name] = K()
    def pending(v, self_name):
      # the value reads a local whose kinds are not known yet (it is assigned further down in source order): wait a round
      return any(isinstance(x, ast.Name) and x.id != self_name and x.id in assigns and not env.get(x.id) for x in ast.walk(v))
    for rnd in range(8):
      changed = False
      for name, lst in assigns.items():
        cur = set(env.get(name, K()))
        if name in f.params:
          pass
        for (kind, v) in lst:
          if kind == "expr":
            if rnd < 6 and pending(v, name):
              changed = True
              continue
            cur |= self.kind(f, v, env)
          elif kind == "kind":
            cur |= v
          elif kind == "unk":
            cur.add(UNK)
          elif kind == "aug":
            cur |= combine(v.op, env.get(name, K({UNK})) or K({UNK}), self.kind(f, v.value, env))
        if K(cur) != env.get(name):
          env[name] = K(cur)
          changed = True
      if not changed:
        break
    return env

  # -- field kinds ----------------------------------------------------------------------
  def field_kind(self, ci: ClassInfo, attr: str) -> frozenset:
    key = (ci.qualname, attr)
    if key in self.field:
      return self.field[key]
    self.field[key] = K({UNK})  # provisional (recursion)
    out = set()
    found = False
    for c in self.ix.mro(ci):
      if attr in c.ann:
        k = self.ann_kind(c.ann[attr])
        if k is not None:
          self.field[key] = k
          return k
      for m in c.methods.values():
        sn = m.params[0] if m.params and not m.is_static else None
        if sn is None:
          continue
        for n in own_nodes(m.node):
          tgt = val = ann = None
          if isinstance(n, ast.Assign) and len(n.targets) == 1:
            tgt, val = n.targets[0], n.value
          elif isinstance(n, ast.AnnAssign):
            tgt, val, ann = n.target, n.value, n.annotation
          if isinstance(tgt, ast.Attribute) and isinstance(tgt.value, ast.Name) and tgt.value.id == sn and tgt.attr == attr:
            found = True
            k = self.ann_kind(ann) if ann is not None else None
            if k is not None:
              out |= k
            elif val is not None:
              out |= self.kind(m, val, self.var_kinds(m))
    res = K(out) if found else K({UNK})
    self.field[key] = res
    return res

  # -- return summaries -----------------------------------------------------------------
  def ret_kind(self, f: FuncInfo) -> frozenset:
    if f.qualname in self.ret:
      return self.ret[f.qualname]
    if f.qualname in self._busy:
      return K()
    self._busy.add(f.qualname)
    try:
      out = set()
      env = self.var_kinds(f)
      any_ret = False
      for n in own_nodes(f.node):
        if isinstance(n, ast.Return):
          any_ret = True
          out |= self.kind(f, n.value, env) if n.value is not None else {NONE}
      if not any_ret:
        out.add(NONE)
      ak = self.ann_kind(f.node.returns)
      # an `-> int` / `-> Fraction` annotation is not trusted: the body decides
      res = K(out)
    finally:
      self._busy.discard(f.qualname)
    self.ret[f.qualname] = res
    return res

  # -- expressions ----------------------------------------------------------------------
  def kind(self, f: FuncInfo, e, env) -> frozenset:
    if e is None:
      return K({NONE})
    if isinstance(e, ast.Constant):
      v = e.value
      if isinstance(v, bool):
        return K({INT})
      if isinstance(v, int):
        return K({INT})
      if isinstance(v, float):
        return K({IFLOAT}) if v.is_integer() else K({FLOAT})
      if isinstance(v, str):
        return K({STR})
      if v is None:
        return K({NONE})
      return K({UNK})
    if isinstance(e, ast.Name):
      if e.id in env:
        return env[e.id] or K({UNK})
      # module-level constant
      r = self.ix.resolve(f.module, e, cls=f.cls, func=f)
      if isinstance(r, tuple) and r[0] == "assign":
        return self.kind_in_module(r[1], r[2])
      return K({UNK})
    if isinstance(e, ast.Attribute):
      base_t = strip_opt(self.ty.expr_type(f.module, e.value, self.ty.env(f), f.cls, f))
      if base_t is not None and base_t[0] == "inst":
        return self.field_kind(base_t[1], e.attr)
      r = self.ix.resolve(f.module, e, cls=f.cls, func=f)
      if isinstance(r, tuple) and r[0] == "assign":
        return self.kind_in_module(r[1], r[2])
      if e.attr in ("numerator", "denominator"):
        return K({INT})
      return K({UNK})
    if isinstance(e, ast.UnaryOp):
      return self.kind(f, e.operand, env) if isinstance(e.op, (ast.USub, ast.UAdd)) else K({INT})
    if isinstance(e, ast.BinOp):
      return combine(e.op, self.kind(f, e.left, env), self.kind(f, e.right, env))
    if isinstance(e, ast.IfExp):
      return self.kind(f, e.body, env) | self.kind(f, e.orelse, env)
    if isinstance(e, ast.BoolOp):
      out = set()
      for v in e.values:
        out |= self.kind(f, v, env)
      return K(out)
    if isinstance(e, ast.Compare):
      return K({INT})
    if isinstance(e, ast.Call):
      return self.call_kind(f, e, env)
    if isinstance(e, ast.JoinedStr):
      return K({STR})
    return K({UNK})

  def kind_in_module(self, m, expr) -> frozenset:
    """Kind of a module/class-level constant expression (no locals)."""
    class _F:  # minimal stand-in
      pass
    fake = _F()
    fake.module, fake.cls, fake.outer_func, fake.params, fake.qualname = m, None, None, [], m.name + ":<module>"
    fake.node = ast.parse("def _f(): pass").body[0]
    fake.is_static = True
    try:
      return self.kind(fake, expr, {})  # type: ignore[arg-type]
    except Exception:
      return K({UNK})

  def call_kind(self, f, e: ast.Call, env) -> frozenset:
    fn = dotted(e.func) or ""
    last = fn.split(".")[-1]
    args = e.args
    if fn in ("int", "len", "ord", "hash") or last in ("floor", "ceil", "trunc") and fn.split(".")[0] in ("math", last):
      return K({INT})
    if fn == "round":
      if len(args) == 1 and not e.keywords:
        return K({INT})
      return self.kind(f, args[0], env) if args else K({UNK})
    if fn == "float":
      k = self.kind(f, args[0], env) if args else K({UNK})
      if k and k <= {INT, IFLOAT}:
        return K({IFLOAT})
      if k and k <= {STR}:
        return K({UNK})      # decimal parsed from text: the caller's datum, not an arithmetic artefact
      return K({FLOAT})
    if last == "Fraction":
      if len(args) == 1:
        k = self.kind(f, args[0], env)
        if FLOAT in k or QF in k:
          return K({FLOAT})   # Fraction(<inexact float>) is an exact image of an already wrong value
        if k <= {INT, FRAC, STR, IFLOAT}:
          return K({FRAC})
        return K({FRAC, UNK}) - ({UNK} if UNK not in k else set()) or K({FRAC})
      return K({FRAC})
    if fn in ("abs", "min", "max", "sum"):
      out = set()
      for a in args:
        out |= self.kind(f, a, env)
      return K(out) or K({UNK})
    if fn == "str" or last in ("group", "strip", "lower", "upper", "format", "join"):
      return K({STR})
    callee = self.ty.callee(f.module, e, self.ty.env(f), f.cls, f) if hasattr(f, "node") and isinstance(f, FuncInfo) else None
    if isinstance(callee, FuncInfo):
      return self.ret_kind(callee) or K({UNK})
    if isinstance(callee, ClassInfo):
      return K({UNK})
    # name-based class-hierarchy fallback for methods
    if isinstance(e.func, ast.Attribute):
      # (not when the receiver is known to be an object without such a method: a record whose field holds a function)
      try:
        rt_ = strip_opt(self.ty.expr_type(f.module, e.func.value, self.ty.env(f), f.cls, f)) if isinstance(f, FuncInfo) else None
      except Exception:   # pylint: disable=broad-except
        rt_ = None
      if isinstance(rt_, tuple) and len(rt_) > 1 and rt_[0] == "inst" and isinstance(rt_[1], ClassInfo) and self.ix.lookup_method(rt_[1], e.func.attr) is None:
        return K({UNK})
      cands = self._by_name.get(e.func.attr, [])
      # the name is also a field of some record class of the package (a row holding a function): the receiver may be such a row
      if any(e.func.attr in (c_.ann or {}) or e.func.attr in (c_.field_order or ()) and e.func.attr not in c_.methods for c_ in self.ix.classes.values() if e.func.attr not in c_.methods):
        return K({UNK})
      if 1 <= len(cands) <= 4:
        out = set()
        for c in cands:
          out |= self.ret_kind(c)
        return K(out) or K({UNK})
    return K({UNK})


def check_exactness(ctx, funcs: typing.Iterable[FuncInfo], rule="EXA", exempt: typing.Optional[dict] = None, shared=None,
                    trunc_scope: typing.Optional[typing.Callable[[FuncInfo], bool]] = None):
  """exempt: {(func qualname, normalised call text | predicate(ex, f, call, env)): reason}
  trunc_scope(f): whether truncation sinks inside f are on a seconds->frames path (time sinks are
  checked in every function handed in)."""
  ix = ctx.ix
  shared = shared if shared is not None else {}
  ty = shared.get("ty") or Typer(ix)
  ex = shared.get("ex") or Exactness(ix, ty)
  shared.update(ty=ty, ex=ex)
  exempt = exempt or {}
  used = set()
  n_sinks = 0
  step_cls = ix.classes.get("ttconv.model:DiscreteAnimationStep")
  element = ix.cls("ttconv.model:ContentElement")
  funcs = list(funcs)
  for f in funcs:
    env = None
    for n in own_nodes(f.node):
      if not isinstance(n, ast.Call):
        continue
      name = call_name(n)
      fn = dotted(n.func) or ""
      sink_args = []
      what = None
      if (fn in ("int", "round") or (name in TRUNC and fn.split(".")[0] in ("math", name))) and n.args:
        if fn == "round" and (len(n.args) != 1 or n.keywords):
          continue
        if trunc_scope is not None and not trunc_scope(f):
          continue
        sink_args = [n.args[0]]
        what = f"truncation {fn}()"
        blamed = {FLOAT}
      elif name in TIME_SINKS and isinstance(n.func, ast.Attribute) and len(n.args) == 1:
        rt = strip_opt(ty.expr_type(f.module, n.func.value, ty.env(f), f.cls, f))
        if rt is not None and not (rt[0] == "inst" and ix.is_subclass(rt[1], element)):
          continue   # e.g. SrtParagraph.set_end / SccCaptionParagraph.set_begin: not the model's time
        sink_args = [n.args[0]]
        what = f"model time sink {name}()"
        blamed = {FLOAT, QF}
      elif name == "from_seconds" and isinstance(n.func, ast.Attribute) and n.args and unparse(n.func.value).split(".")[-1] in ("SmpteTimeCode", "ClockTime"):
        if trunc_scope is not None and not trunc_scope(f):
          continue
        sink_args = [n.args[0]]
        what = f"time-code construction {unparse(n.func)}()"
        blamed = {FLOAT, QF}
      elif name == "DiscreteAnimationStep" and step_cls is not None:
        for kw in n.keywords:
          if kw.arg in ("begin", "end"):
            sink_args.append(kw.value)
        for i, a in enumerate(n.args):
          if i in (1, 2):
            sink_args.append(a)
        what = "model time sink DiscreteAnimationStep(begin, end)"
        blamed = {FLOAT, QF}
      if not sink_args:
        continue
      if env is None:
        env = ex.var_kinds(f)
        ctx.unit(f.module)
      for a in sink_args:
        k = ex.kind(f, a, env)
        if k <= {STR, NONE}:
          continue  # int("12") etc.: parsing, not truncation
        n_sinks += 1
        key = f"{f.qualname}|{short(n, 110)}"
        if k & blamed:
          ek = next((e for e in exempt if e[0] == f.qualname and (e[1](ex, f, n, env) if callable(e[1]) else e[1] == unparse(n))), None)
          if ek is not None:
            used.add(ek)
            ctx.ok(rule, key + "|exempt", ctx.where(f.module, n), "reasoned exception: " + exempt[ek])
          else:
            ctx.bad(rule, key, ctx.where(f.module, n),
                    f"the argument `{short(a, 70)}` of {what} may be an inexact binary float computed by this code "
                    f"(kinds {sorted(k)}): a time that lies exactly on a frame / millisecond boundary can land on the "
                    "neighbouring value; use Fraction arithmetic")
        else:
          ctx.ok(rule, key, ctx.where(f.module, n), f"argument kinds {sorted(k)}: exact or caller-supplied")
  for ek, why in exempt.items():
    if ek not in used and any(fi.qualname == ek[0] for fi in funcs):
      raise_stale = ix.func_opt(ek[0]) is None
      ctx.note(f"EXA exemption for {ek[0]} did not match any sink (stale exemption)")
  return n_sinks
