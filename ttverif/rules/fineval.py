"""Finite-domain evaluation of a dispatch: for one concrete value of the dispatch variable, which
calls on a given receiver does a statement list make?  If-tests and arguments are evaluated with
the constant evaluator (dict / tuple tables, `in`, `.get`, comparisons, calls of pure repo
predicates); a test that cannot be evaluated makes that `if` statement contribute nothing.  Both an
if/elif chain on the value and lookup tables keyed by the value are read the same way."""
from __future__ import annotations

import ast
import typing

from ..consteval import FuncEval, NotConst, Raised, _CallingConstEval
from ..core import FuncInfo, Index, unparse


class Effects:
  def __init__(self):
    self.calls: typing.List[typing.Tuple[str, typing.List[typing.Any], ast.AST]] = []
    self.skipped: typing.List[str] = []
    self.env: typing.Dict[str, typing.Any] = {}
    self.stopped: typing.Optional[str] = None
    self.trace: typing.List[typing.Tuple] = []      # ("call", name, args, node) and ("skipped-if", node), in execution order


def collect(ix: Index, f: FuncInfo, stmts, env: typing.Dict[str, typing.Any], receiver) -> Effects:
  """receiver: the text of the receiver whose calls are recorded, or a tuple of such texts."""
  receivers = (receiver,) if isinstance(receiver, str) else tuple(receiver)
  fe = FuncEval(ix)
  ce = _CallingConstEval(ix, fe, f, 0, None)
  out = Effects()
  env = dict(env)

  loop_depth = [0]

  def ev(e):
    return ce.ev(f.module, e, f.cls, env)

  def arg(e):
    try:
      return ev(e)
    except (NotConst, Raised, Exception):
      return ("expr", unparse(e))

  def run(body):
    for st in body:
      if isinstance(st, ast.If):
        try:
          t = ev(st.test)
        except (NotConst, Raised, Exception):
          out.skipped.append(unparse(st.test)[:80])
          out.trace.append(("skipped-if", st))
          continue
        run(st.body if t else st.orelse)
      elif isinstance(st, ast.Expr) and isinstance(st.value, ast.Call):
        c = st.value
        if isinstance(c.func, ast.Attribute) and unparse(c.func.value) in receivers:
          out.calls.append((c.func.attr, [arg(a) for a in c.args], c))
          out.trace.append(("call", c.func.attr, out.calls[-1][1], c))
      elif isinstance(st, ast.Assign) and len(st.targets) == 1 and isinstance(st.targets[0], ast.Name):
        # a call on a recorded receiver whose result is kept (`x = recv.f(...)`) is recorded too; x becomes a token for the result
        c = st.value
        if isinstance(c, ast.Call) and isinstance(c.func, ast.Attribute) and unparse(c.func.value) in receivers:
          out.calls.append((c.func.attr, [arg(a) for a in c.args], c))
          out.trace.append(("call", c.func.attr, out.calls[-1][1], c))
          env[st.targets[0].id] = ("result", len(out.calls) - 1)
          continue
        try:
          env[st.targets[0].id] = ev(st.value)
        except (NotConst, Raised, Exception):
          env.pop(st.targets[0].id, None)
      elif isinstance(st, ast.For) and not st.orelse:
        # a loop over a finite, evaluable sequence is unrolled (at most 16 items)
        try:
          seq = ev(st.iter)
        except (NotConst, Raised, Exception):
          seq = None
        if not isinstance(seq, (list, tuple, range)) or len(seq) > 16:
          out.skipped.append("For " + unparse(st.iter)[:60])
          continue
        loop_depth[0] += 1
        for item in seq:
          tg = st.target
          if isinstance(tg, ast.Name):
            env[tg.id] = item
          elif isinstance(tg, (ast.Tuple, ast.List)) and isinstance(item, (tuple, list)) and len(item) == len(tg.elts) and all(isinstance(t, ast.Name) for t in tg.elts):
            for t, x in zip(tg.elts, item):
              env[t.id] = x
          else:
            out.skipped.append("For target")
            break
          try:
            run(st.body)
          except _Continue:
            continue
          except _Break:
            break
        loop_depth[0] -= 1
      elif isinstance(st, ast.AugAssign) and isinstance(st.target, ast.Name):
        try:
          env[st.target.id] = ev(ast.fix_missing_locations(ast.copy_location(ast.BinOp(left=ast.Name(id=st.target.id, ctx=ast.Load()), op=st.op, right=st.value), st)))
        except (NotConst, Raised, Exception):
          env.pop(st.target.id, None)
      elif isinstance(st, ast.Continue) and loop_depth[0]:
        raise _Continue()
      elif isinstance(st, ast.Break) and loop_depth[0]:
        raise _Break()
      elif isinstance(st, (ast.Continue, ast.Break, ast.Return)):
        out.stopped = type(st).__name__
        raise _Stop()
      elif isinstance(st, (ast.Pass, ast.Expr)):
        continue
      else:
        out.skipped.append(type(st).__name__)
  try:
    run(stmts)
  except _Stop:
    pass
  out.env = env
  return out


class _Stop(Exception):
  pass


class _Continue(Exception):
  pass


class _Break(Exception):
  pass
