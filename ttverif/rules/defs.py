"""DEF: definite assignment.

DEF-local: every read of a function-local name is preceded by an assignment on every CFG path.
DEF-init:  every `self.X` that some other method of the class reads (and that no class-level
           attribute provides) is assigned on every normal exit of `__init__`.
"""
from __future__ import annotations

import ast
import builtins
import typing

from ..cfg import CFG, assigned_names, forward, header_exprs
from ..core import FuncInfo, own_nodes, parent, short, unparse

_BUILTINS = set(dir(builtins))


def _comp_bound(node) -> typing.Set[str]:
  out = set()
  for g in node.generators:
    out |= set(assigned_names(g.target))
  return out


def _uses_and_defs(expr_or_stmt, locals_: typing.Set[str]):
  """Ordered (kind, name, node) events for one CFG node's own expressions, honouring
  evaluation order well enough for definite assignment: for Assign / AnnAssign / AugAssign the
  value is evaluated before the target is bound."""
  events = []

  def visit(n, shadow: frozenset):
    if isinstance(n, ast.Name):
      if n.id in locals_ and n.id not in shadow:
        if isinstance(n.ctx, ast.Load):
          events.append(("use", n.id, n))
        elif isinstance(n.ctx, ast.Store):
          events.append(("def", n.id, n))
        elif isinstance(n.ctx, ast.Del):
          events.append(("del", n.id, n))
      return
    if isinstance(n, (ast.FunctionDef, ast.AsyncFunctionDef)):
      for d in n.decorator_list + n.args.defaults + [k for k in n.args.kw_defaults if k is not None]:
        visit(d, shadow)
      if n.name in locals_:
        events.append(("def", n.name, n))
      return
    if isinstance(n, ast.ClassDef):
      for d in n.decorator_list + n.bases:
        visit(d, shadow)
      if n.name in locals_:
        events.append(("def", n.name, n))
      return
    if isinstance(n, ast.Lambda):
      sh = shadow | {a.arg for a in n.args.args + n.args.kwonlyargs + n.args.posonlyargs}
      # free variables of a lambda are read when it is *called*; not checked here
      return
    if isinstance(n, (ast.ListComp, ast.SetComp, ast.GeneratorExp, ast.DictComp)):
      sh = shadow | _comp_bound(n)
      first = True
      for g in n.generators:
        visit(g.iter, shadow if first else sh)
        first = False
        for c in g.ifs:
          visit(c, sh)
      if isinstance(n, ast.DictComp):
        visit(n.key, sh)
        visit(n.value, sh)
      else:
        visit(n.elt, sh)
      return
    if isinstance(n, ast.Assign):
      visit(n.value, shadow)
      for t in n.targets:
        visit(t, shadow)
      return
    if isinstance(n, ast.AnnAssign):
      if n.value is not None:
        visit(n.value, shadow)
        visit(n.target, shadow)
      return
    if isinstance(n, ast.AugAssign):
      if isinstance(n.target, ast.Name) and n.target.id in locals_:
        events.append(("use", n.target.id, n.target))
      else:
        visit(n.target, shadow)
      visit(n.value, shadow)
      if isinstance(n.target, ast.Name) and n.target.id in locals_:
        events.append(("def", n.target.id, n.target))
      return
    if isinstance(n, ast.NamedExpr):
      visit(n.value, shadow)
      visit(n.target, shadow)
      return
    if isinstance(n, (ast.Import, ast.ImportFrom)):
      for a in n.names:
        nm = (a.asname or a.name).split(".")[0]
        if nm in locals_:
          events.append(("def", nm, n))
      return
    for ch in ast.iter_child_nodes(n):
      visit(ch, shadow)

  visit(expr_or_stmt, frozenset())
  return events


def function_locals(fnode) -> typing.Set[str]:
  params = {a.arg for a in fnode.args.posonlyargs + fnode.args.args + fnode.args.kwonlyargs}
  if fnode.args.vararg:
    params.add(fnode.args.vararg.arg)
  if fnode.args.kwarg:
    params.add(fnode.args.kwarg.arg)
  declared = set()
  assigned = set()
  for n in own_nodes(fnode):
    if isinstance(n, (ast.Global, ast.Nonlocal)):
      declared |= set(n.names)
    elif isinstance(n, ast.Name) and isinstance(n.ctx, (ast.Store, ast.Del)):
      # skip comprehension targets (own scope)
      p = parent(n)
      in_comp = False
      q = n
      while p is not None and p is not fnode:
        if isinstance(p, ast.comprehension) and (q is p.target or _inside(p.target, n)):
          in_comp = True
          break
        q, p = p, parent(p)
      if not in_comp:
        assigned.add(n.id)
    elif isinstance(n, (ast.FunctionDef, ast.AsyncFunctionDef, ast.ClassDef)):
      assigned.add(n.name)
    elif isinstance(n, (ast.Import, ast.ImportFrom)):
      for a in n.names:
        assigned.add((a.asname or a.name).split(".")[0])
    elif isinstance(n, ast.ExceptHandler) and n.name:
      assigned.add(n.name)
  return (assigned - declared) - params


def _items(node):
  """Like header_exprs, but a nested def / class statement is itself an item (it binds a name)."""
  if isinstance(node.ast, (ast.FunctionDef, ast.AsyncFunctionDef, ast.ClassDef)) and node.kind == "stmt":
    return [node.ast]
  return header_exprs(node)


def _inside(root, node):
  return any(x is node for x in ast.walk(root))


def check_def_local(ctx, funcs: typing.Iterable[FuncInfo], rule="DEF-local", exempt: typing.Optional[dict] = None):
  """exempt: {(func qualname, name): reason} single-symbol reasoned exceptions."""
  exempt = exempt or {}
  used_exempt = set()
  n_funcs = 0
  for f in funcs:
    locals_ = function_locals(f.node)
    if not locals_:
      continue
    n_funcs += 1
    ctx.unit(f.module)
    cfg = CFG(f.node)

    def transfer(node, state):
      st = set(state)
      if node.kind == "handler":
        if node.ast.name and node.ast.name in locals_:
          st.add(node.ast.name)
        return frozenset(st)
      if node.kind == "for":
        return frozenset(st)  # target bound on the iter-true edge
      if node.kind == "with":
        for item in node.ast.items:
          if item.optional_vars is not None:
            st |= set(assigned_names(item.optional_vars)) & locals_
        return frozenset(st)
      for e in _items(node):
        for (k, name, _) in _uses_and_defs(e, locals_):
          if k == "def":
            st.add(name)
          elif k == "del":
            st.discard(name)
      return frozenset(st)

    def edge(node, lab, sin, sout):
      if isinstance(lab, tuple) and lab[0] == "exc":
        return sin
      if isinstance(lab, tuple) and lab[0] == "iter" and lab[2] is True:
        return frozenset(set(sout) | (set(assigned_names(node.ast.target)) & locals_))
      return sout

    inn = forward(cfg, frozenset(), transfer, lambda a, b: a & b, edge)
    reported = set()
    for nid, state in inn.items():
      node = cfg.nodes[nid]
      if node.ast is None:
        continue
      cur = set(state)
      for e in _items(node):
        for (k, name, n) in _uses_and_defs(e, locals_):
          if k == "use":
            if name not in cur and (name, getattr(n, "lineno", 0)) not in reported:
              reported.add((name, getattr(n, "lineno", 0)))
              key = f"{f.qualname}|{name}"
              if (f.qualname, name) in exempt:
                used_exempt.add((f.qualname, name))
                ctx.ok(rule, key + "|exempt", ctx.where(f.module, n), "reasoned exception: " + exempt[(f.qualname, name)])
              else:
                ctx.bad(rule, key, ctx.where(f.module, n),
                        f"local `{name}` is read here but is not assigned on every path from the function entry "
                        f"(UnboundLocalError, or a stale value from an earlier loop iteration)")
          elif k == "def":
            cur.add(name)
          elif k == "del":
            cur.discard(name)
    ctx.ok(rule, f"{f.qualname}|<all-locals>", ctx.where(f.module, f.node), f"{len(locals_)} locals analysed") \
      if not reported else None
  for k, why in exempt.items():
    if k not in used_exempt and ctx.ix.func_opt(k[0]) is not None and any(fi.qualname == k[0] for fi in funcs):
      ctx.note(f"DEF-local exemption {k} no longer needed")
  return n_funcs


# ---------------------------------------------------------------------------------------

def _self_attr_stores(expr_or_stmt, selfname):
  out = []
  for n in ast.walk(expr_or_stmt) if not isinstance(expr_or_stmt, list) else []:
    if isinstance(n, ast.Attribute) and isinstance(n.ctx, ast.Store) and isinstance(n.value, ast.Name) and n.value.id == selfname:
      out.append(n.attr)
  return out


def check_def_init(ctx, classes, rule="DEF-init"):
  """For each class with an __init__: attributes read via self.X in other methods must be
  assigned on every normal exit of __init__ (or provided at class level / by a base class)."""
  ix = ctx.ix
  n = 0
  for c in classes:
    init = c.methods.get("__init__")
    if init is None:
      continue
    ctx.unit(c.module)
    selfname = init.params[0] if init.params else "self"
    # attributes assigned somewhere in __init__ (the candidates)
    candidates = set()
    for node in own_nodes(init.node):
      if isinstance(node, ast.Attribute) and isinstance(node.ctx, ast.Store) and isinstance(node.value, ast.Name) and node.value.id == selfname:
        candidates.add(node.attr)
    if not candidates:
      continue
    # provided elsewhere?
    provided = set()
    for b in ix.mro(c):
      provided |= set(b.assigns) | set(b.methods)
      if b is not c:
        binit = b.methods.get("__init__")
        if binit is not None:
          for node in own_nodes(binit.node):
            if isinstance(node, ast.Attribute) and isinstance(node.ctx, ast.Store):
              provided.add(node.attr)
    # read by other methods of the class (or subclasses)
    readers: typing.Dict[str, str] = {}
    for k in [c] + ix.all_subclasses(c):
      for mth in k.methods.values():
        if mth is init:
          continue
        sn = mth.params[0] if mth.params and not mth.is_static else None
        if sn is None:
          continue
        for node in own_nodes(mth.node):
          if isinstance(node, ast.Attribute) and isinstance(node.ctx, ast.Load) and isinstance(node.value, ast.Name) and node.value.id == sn:
            readers.setdefault(node.attr, mth.qualname)
    need = {a for a in candidates if a in readers and a not in provided}
    if not need:
      continue
    cfg = CFG(init.node)

    def transfer(node, state):
      st = set(state)
      if node.kind in ("handler",):
        return frozenset(st)
      for e in header_exprs(node):
        for x in ast.walk(e):
          if isinstance(x, (ast.FunctionDef, ast.Lambda)) and x is not e:
            continue
          if isinstance(x, ast.Attribute) and isinstance(x.ctx, ast.Store) and isinstance(x.value, ast.Name) and x.value.id == selfname:
            st.add(x.attr)
      return frozenset(st)

    inn = forward(cfg, frozenset(), transfer, lambda a, b: a & b)
    at_exit = inn.get(cfg.exit)
    if at_exit is None:
      continue  # __init__ never returns normally
    for a in sorted(need):
      n += 1
      key = f"{c.qualname}|self.{a}"
      if a in at_exit:
        ctx.ok(rule, key, ctx.where(c.module, init.node), f"assigned on every normal exit of __init__; read by {readers[a]}")
      else:
        ctx.bad(rule, key, ctx.where(c.module, init.node),
                f"`self.{a}` is assigned only on some paths through {c.short}.__init__ but is read by {readers[a]}: "
                "AttributeError on the paths that skip the assignment")
  return n
