"""LINT: exact bug patterns (each is a construct that is wrong on every execution that reaches it).

 (a) lazy iterator (map/filter/zip/generator expression) used as an expression statement;
 (b) all()/any() over a generator / map whose element is a lambda (constant-truthy predicate);
 (c) unsatisfiable numeric range test (chained comparison or `and` of bounds on one operand);
 (d) two members of one Enum with equal values both used as dispatch keys in one function;
 (e) `is` / `is not` where an operand is int-valued;
 (f) dataclass field read through the class (evaluates to the field default);
 (g) attribute that is not a field of the namedtuple the receiver was built from.
"""
from __future__ import annotations

import ast
import re
import typing

from ..consteval import ConstEval, EnumMember, NotConst
from ..core import ClassInfo, FuncInfo, Index, Module, ancestors, dotted, enclosing, own_nodes, parent, short, unparse

LAZY = {"map", "filter", "zip"}


def _iter_modules(ctx, modules):
  for m in modules:
    ctx.unit(m)
    yield m


# (a) -------------------------------------------------------------------------------------
def lazy_discarded(ctx, modules, rule="LINT-a"):
  n = 0
  for m in _iter_modules(ctx, modules):
    for node in ast.walk(m.tree):
      if isinstance(node, ast.Expr):
        v = node.value
        lazy = (isinstance(v, ast.Call) and isinstance(v.func, ast.Name) and v.func.id in LAZY) or isinstance(v, ast.GeneratorExp)
        if lazy:
          n += 1
          scope = ctx.ix.scope_name(m, node)
          ctx.bad(rule, f"{scope}|{short(v, 90)}", ctx.where(m, node),
                  "a lazily evaluated iterator is built and discarded: its function is never applied to any element")
  return n


# (b) -------------------------------------------------------------------------------------
def vacuous_quantifier(ctx, modules, rule="LINT-b"):
  n_sites = 0
  for m in _iter_modules(ctx, modules):
    for node in ast.walk(m.tree):
      if isinstance(node, ast.Call) and isinstance(node.func, ast.Name) and node.func.id in ("all", "any") and len(node.args) == 1:
        n_sites += 1
        a = node.args[0]
        elt = None
        if isinstance(a, (ast.GeneratorExp, ast.ListComp, ast.SetComp)):
          elt = a.elt
        scope = ctx.ix.scope_name(m, node)
        key = f"{scope}|{short(node, 100)}"
        const_truthy = isinstance(elt, ast.Lambda) or \
          (isinstance(elt, ast.Constant) and bool(elt.value) and not isinstance(elt.value, bool)) or \
          isinstance(elt, (ast.Tuple, ast.List)) and len(elt.elts) > 0
        in_validator = scope.split(".")[-1] in ("validate", "__post_init__")
        if in_validator and node.func.id == "any" and elt is not None and "isinstance" in unparse(elt):
          ctx.bad(rule, key, ctx.where(m, node),
                  "a validator accepts the value as soon as ONE item has an admissible type (any); every item must be checked (all)")
          continue
        if const_truthy:
          ctx.bad(rule, key, ctx.where(m, node),
                  f"{node.func.id}() over elements that are always truthy ({type(elt).__name__}): the predicate is never evaluated, "
                  "so the test accepts every element")
        else:
          ctx.ok(rule, key, ctx.where(m, node), "element expression is a genuine predicate")
  return n_sites


# (c) -------------------------------------------------------------------------------------
def _bounds_from_compare(cmp: ast.Compare, ce: ConstEval, m: Module, cls):
  """Return list of (operand_text, op, const) with op in '<','<=','>','>=' meaning operand op const."""
  out = []
  left = cmp.left
  for op, right in zip(cmp.ops, cmp.comparators):
    if isinstance(op, (ast.Lt, ast.LtE, ast.Gt, ast.GtE)):
      lc = ce.try_ev(m, left, cls, default=NotConst)
      rc = ce.try_ev(m, right, cls, default=NotConst)
      sym = {ast.Lt: "<", ast.LtE: "<=", ast.Gt: ">", ast.GtE: ">="}[type(op)]
      flip = {"<": ">", "<=": ">=", ">": "<", ">=": "<="}
      isnum = lambda v: isinstance(v, (int, float)) and not isinstance(v, bool)
      if isnum(rc) and not isnum(lc):
        out.append((unparse(left), sym, rc))
      elif isnum(lc) and not isnum(rc):
        out.append((unparse(right), flip[sym], lc))
    left = right
  return out


def _unsat(bounds):
  lo, lo_strict, hi, hi_strict = None, False, None, False
  for (_, op, c) in bounds:
    if op in (">", ">="):
      if lo is None or c > lo or (c == lo and op == ">"):
        lo, lo_strict = c, op == ">"
    else:
      if hi is None or c < hi or (c == hi and op == "<"):
        hi, hi_strict = c, op == "<"
  if lo is None or hi is None:
    return False
  return lo > hi or (lo == hi and (lo_strict or hi_strict))


def unsat_ranges(ctx, modules, rule="LINT-c"):
  ce = ConstEval(ctx.ix)
  n = 0
  for m in _iter_modules(ctx, modules):
    for node in ast.walk(m.tree):
      groups = []
      if isinstance(node, ast.Compare) and len(node.ops) >= 2:
        if isinstance(parent(node), ast.BoolOp) and isinstance(parent(node).op, ast.And):
          pass  # also evaluated as part of the conjunction below; still check alone
        groups.append((node, _bounds_from_compare(node, ce, m, ctx.ix.enclosing_class(node))))
      elif isinstance(node, ast.BoolOp) and isinstance(node.op, ast.And):
        bs = []
        for v in node.values:
          if isinstance(v, ast.Compare):
            bs += _bounds_from_compare(v, ce, m, ctx.ix.enclosing_class(node))
        groups.append((node, bs))
      for (gnode, bs) in groups:
        by_operand: typing.Dict[str, list] = {}
        for b in bs:
          by_operand.setdefault(b[0], []).append(b)
        for operand, lst in by_operand.items():
          if len(lst) < 2:
            continue
          n += 1
          scope = ctx.ix.scope_name(m, gnode)
          key = f"{scope}|{short(gnode, 100)}|{operand}"
          if _unsat(lst):
            ctx.bad(rule, key, ctx.where(m, gnode),
                    f"the bounds on `{operand}` ({', '.join(op + ' ' + str(c) for _, op, c in lst)}) cannot hold together: "
                    "the guarded branch is unreachable, so the range is never enforced")
          else:
            ctx.ok(rule, key, ctx.where(m, gnode), "bounds are satisfiable")
  return n


# (d) -------------------------------------------------------------------------------------
def enum_alias_dispatch(ctx, modules, rule="LINT-d"):
  ix = ctx.ix
  ce = ConstEval(ix, symbolic_ok=True)
  n = 0
  enums = [c for c in ix.classes.values() if ix.is_enum(c) and c.module in modules]
  for c in enums:
    ctx.unit(c.module)
    by_val: typing.Dict[typing.Any, typing.List[str]] = {}
    for name, vexpr in ix.enum_members(c):
      try:
        v = ce.ev(c.module, vexpr, c)
        hash(v)
      except (NotConst, TypeError):
        v = ("expr", unparse(vexpr))
      by_val.setdefault(v, []).append(name)
    aliases = {v: ns for v, ns in by_val.items() if len(ns) > 1}
    n += 1
    if not aliases:
      ctx.ok(rule, f"{c.qualname}|members-distinct", ctx.where(c.module, c.node), f"{len(by_val)} distinct values")
      continue
    # where are the aliased members used as comparison operands?
    scope_node = c.node
    search_root = None
    for a in ancestors(c.node):
      if isinstance(a, (ast.FunctionDef, ast.Module)):
        search_root = a
        break
    uses: typing.Dict[str, typing.Dict[str, list]] = {}
    for node in ast.walk(search_root):
      if isinstance(node, ast.Attribute) and isinstance(node.ctx, ast.Load):
        r = None
        base = node.value
        if isinstance(base, (ast.Name, ast.Attribute)) and (dotted(base) or "").split(".")[-1] == c.name:
          r = node.attr
        if r is None:
          continue
        par = parent(node)
        in_cmp = isinstance(par, ast.Compare) or (isinstance(par, (ast.Tuple, ast.List, ast.Set)) and isinstance(parent(par), ast.Compare)) \
          or isinstance(par, ast.Dict) and node in par.keys
        if in_cmp:
          fn = enclosing(node, (ast.FunctionDef, ast.AsyncFunctionDef))
          fq = getattr(getattr(fn, "_info", None), "qualname", c.module.name + ":<module>")
          uses.setdefault(fq, {}).setdefault(r, []).append(node)
    for v, names in aliases.items():
      reported = False
      for fq, used in uses.items():
        both = [nm for nm in names if nm in used]
        if len(both) >= 2:
          reported = True
          later = both[1:]
          node = used[later[0]][0]
          ctx.bad(rule, f"{c.qualname}|{'='.join(names)}|dispatch in {fq}", ctx.where(c.module, node),
                  f"Enum members {', '.join(c.name + '.' + x for x in names)} have the same value {v!r}, so they are one object; "
                  f"the branch testing {c.name}.{later[0]} can never be distinguished from {c.name}.{both[0]} (dead / mis-routed state)")
      if not reported:
        ctx.ok(rule, f"{c.qualname}|{'='.join(names)}|alias-not-dispatched", ctx.where(c.module, c.node),
               "aliased members are never used together as dispatch keys")
  return n


# (e) -------------------------------------------------------------------------------------
_STRUCT_INT = set("bBhHiIlLqQnN?")
_STRUCT_RE = re.compile(r"(\d*)([xcbB?hHiIlLqQnNefdspP])")


def struct_field_kinds(fmt: str) -> typing.List[str]:
  """Kinds ('int', 'bytes', 'float') of the values struct.unpack(fmt) returns, in order."""
  out = []
  body = fmt.lstrip("@=<>!")
  for cnt, code in _STRUCT_RE.findall(body):
    k = int(cnt) if cnt else 1
    if code == "x":
      continue
    if code in "sp":
      out.append("bytes")
    elif code == "c":
      out += ["bytes"] * k
    elif code in _STRUCT_INT:
      out += ["int"] * k
    else:
      out += ["float"] * k
  return out


class NamedTuples:
  """namedtuple classes of the package and the variables / attributes built from them."""

  def __init__(self, ix: Index):
    self.ix = ix
    self.defs: typing.Dict[typing.Tuple[str, str], typing.List[str]] = {}   # (module, name) -> fields
    for mname, top in ix.toplevel.items():
      for name, v in top.items():
        if isinstance(v, tuple) and v[0] == "assign":
          call = v[2]
          if isinstance(call, ast.Call) and (dotted(call.func) or "").split(".")[-1] == "namedtuple" and len(call.args) >= 2:
            flds = call.args[1]
            fields = None
            if isinstance(flds, (ast.List, ast.Tuple)) and all(isinstance(e, ast.Constant) for e in flds.elts):
              fields = [e.value for e in flds.elts]
            elif isinstance(flds, ast.Constant) and isinstance(flds.value, str):
              fields = flds.value.replace(",", " ").split()
            if fields is not None:
              self.defs[(mname, name)] = fields

  def built_from(self, m: Module, value) -> typing.Optional[typing.Tuple[typing.Tuple[str, str], typing.Optional[typing.List[str]]]]:
    """If `value` is NT(...) or NT._make(...), return (ntkey, kinds or None)."""
    if not isinstance(value, ast.Call):
      return None
    f = value.func
    key = None
    kinds = None
    if isinstance(f, ast.Name) and (m.name, f.id) in self.defs:
      key = (m.name, f.id)
    elif isinstance(f, ast.Attribute) and f.attr == "_make" and isinstance(f.value, ast.Name) and (m.name, f.value.id) in self.defs:
      key = (m.name, f.value.id)
      if value.args and isinstance(value.args[0], ast.Call) and (dotted(value.args[0].func) or "") in ("struct.unpack", "unpack"):
        fa = value.args[0].args
        if fa and isinstance(fa[0], ast.Constant) and isinstance(fa[0].value, str):
          kinds = struct_field_kinds(fa[0].value)
    if key is None:
      return None
    return key, kinds

  def bindings(self, m: Module):
    """access path text ('self.gsi' / 'tti' within function) -> (ntkey, kinds, scope)"""
    out = []
    for node in ast.walk(m.tree):
      if isinstance(node, ast.Assign) and len(node.targets) == 1:
        b = self.built_from(m, node.value)
        if b is not None:
          t = node.targets[0]
          fn = enclosing(node, (ast.FunctionDef, ast.AsyncFunctionDef))
          cls = enclosing(node, ast.ClassDef)
          if isinstance(t, ast.Name):
            out.append((t.id, b[0], b[1], fn))
          elif isinstance(t, ast.Attribute) and isinstance(t.value, ast.Name) and t.value.id == "self":
            out.append(("self." + t.attr, b[0], b[1], cls))
    return out


def _int_valued(e, ce: ConstEval, m: Module, cls, nt_fields) -> typing.Optional[str]:
  """Reason why `e` is int-valued, or None."""
  if isinstance(e, ast.Constant) and isinstance(e.value, int) and not isinstance(e.value, bool):
    return f"int literal {e.value}"
  if isinstance(e, ast.Call) and isinstance(e.func, ast.Name) and e.func.id in ("ord", "len", "int", "hash", "id", "round") :
    if e.func.id == "round" and len(e.args) != 1:
      return None
    return f"result of {e.func.id}()"
  if isinstance(e, ast.UnaryOp) and isinstance(e.op, (ast.USub, ast.UAdd, ast.Invert)):
    return _int_valued(e.operand, ce, m, cls, nt_fields)
  if isinstance(e, ast.BinOp) and isinstance(e.op, (ast.Add, ast.Sub, ast.Mult, ast.FloorDiv, ast.Mod, ast.BitAnd, ast.BitOr, ast.BitXor, ast.LShift, ast.RShift)):
    a = _int_valued(e.left, ce, m, cls, nt_fields)
    b = _int_valued(e.right, ce, m, cls, nt_fields)
    if a and b:
      return "integer arithmetic"
  if isinstance(e, ast.Attribute):
    k = nt_fields.get(unparse(e))
    if k == "int":
      return "integer field unpacked by struct"
  v = ce.try_ev(m, e, cls, default=NotConst)
  if isinstance(v, int) and not isinstance(v, bool):
    return f"constant {v}"
  return None


def identity_on_ints(ctx, modules, rule="LINT-e"):
  ix = ctx.ix
  ce = ConstEval(ix, symbolic_ok=False)
  nts = NamedTuples(ix)
  n_ops = 0
  for m in _iter_modules(ctx, modules):
    # namedtuple int fields: "<path>.<FIELD>" -> kind
    nt_fields: typing.Dict[str, str] = {}
    for (path, key, kinds, scope) in nts.bindings(m):
      fields = nts.defs[key]
      if kinds is not None and len(kinds) == len(fields):
        for fld, k in zip(fields, kinds):
          nt_fields[f"{path}.{fld}"] = k
    for node in ast.walk(m.tree):
      if not isinstance(node, ast.Compare):
        continue
      left = node.left
      for op, right in zip(node.ops, node.comparators):
        if isinstance(op, (ast.Is, ast.IsNot)):
          n_ops += 1
          cls = ix.enclosing_class(node)
          reasons = [(x, _int_valued(x, ce, m, cls, nt_fields)) for x in (left, right)]
          hit = [(x, r) for x, r in reasons if r]
          scope = ix.scope_name(m, node)
          key = f"{scope}|{short(node, 100)}"
          if hit:
            # small constants are interned by CPython: behaviour is correct there, report as note only
            small = False
            for x, _ in hit:
              v = ce.try_ev(m, x, cls, default=NotConst)
              if isinstance(v, int) and -5 <= v <= 256:
                small = True
            if small:
              ctx.ok(rule, key, ctx.where(m, node), "identity comparison with a small-int constant (interned by CPython; == would be the portable spelling)")
              ctx.note(f"{ctx.where(m, node)}: `{short(node, 60)}` relies on CPython small-int interning")
            else:
              ctx.bad(rule, key, ctx.where(m, node),
                      f"`{unparse(hit[0][0])}` is int-valued ({hit[0][1]}); `is` compares object identity, which differs for equal ints "
                      "outside CPython's small-int cache (values > 256), so equal numbers are treated as different")
        left = right
  return n_ops


# (f) -------------------------------------------------------------------------------------
def dataclass_field_via_class(ctx, modules, rule="LINT-f"):
  ix = ctx.ix
  n = 0
  for m in _iter_modules(ctx, modules):
    for node in ast.walk(m.tree):
      if isinstance(node, ast.Attribute) and isinstance(node.ctx, ast.Load) and isinstance(node.value, (ast.Name, ast.Attribute)):
        cls = ix.enclosing_class(node)
        fn = ix.enclosing_func(node)
        r = ix.resolve(m, node.value, cls=cls, func=fn)
        if isinstance(r, ClassInfo) and r.is_dataclass:
          # shadowed by a local of the same name?
          if isinstance(node.value, ast.Name) and fn is not None and node.value.id in fn.params:
            continue
          attr = node.attr
          if attr in r.ann and attr not in r.nested and attr not in r.methods:
            n += 1
            scope = ix.scope_name(m, node)
            default = unparse(r.assigns[attr]) if attr in r.assigns else "<no default: AttributeError>"
            ctx.bad(rule, f"{scope}|{unparse(node)}", ctx.where(m, node),
                    f"`{unparse(node)}` reads dataclass field `{attr}` through the class {r.short}: it evaluates to the field default "
                    f"({default}), not to a value of the field")
  return n


# (g) -------------------------------------------------------------------------------------
_NT_METHODS = {"_make", "_asdict", "_replace", "_fields", "_field_defaults", "count", "index"}


def namedtuple_attrs(ctx, modules, rule="LINT-g"):
  ix = ctx.ix
  nts = NamedTuples(ix)
  n = 0
  for m in _iter_modules(ctx, modules):
    binds = nts.bindings(m)
    if not binds:
      continue
    for (path, key, kinds, scope) in binds:
      fields = set(nts.defs[key])
      root = scope if scope is not None else m.tree
      for node in ast.walk(root):
        if isinstance(node, ast.Attribute) and unparse(node.value) == path:
          if node.attr.startswith("__"):
            continue
          n += 1
          sc = ix.scope_name(m, node)
          k = f"{sc}|{unparse(node)}"
          if node.attr in fields or node.attr in _NT_METHODS:
            ctx.ok(rule, k, ctx.where(m, node), f"field of namedtuple {key[1]}")
          else:
            ctx.bad(rule, k, ctx.where(m, node),
                    f"`{node.attr}` is not a field of namedtuple {key[1]} {sorted(fields)[:6]}...: AttributeError when this expression is evaluated")
      # struct format agrees with the field list
      if kinds is not None:
        n += 1
        ctx.check(len(kinds) == len(nts.defs[key]), rule, f"{m.name}|{key[1]}|struct-arity",
                  m.rel, f"struct format yields {len(kinds)} values for {len(nts.defs[key])} fields",
                  f"struct format yields {len(kinds)} values but namedtuple {key[1]} has {len(nts.defs[key])} fields: _make raises TypeError on every block")
  return n


# ---------------------------------------------------------------------------------------
# DET-set: iteration over a set in an order-sensitive context
# ---------------------------------------------------------------------------------------

_SET_CTORS = ("set", "frozenset")
_ORDER_FREE = {"sorted", "len", "min", "max", "sum", "any", "all", "set", "frozenset"}


def _is_set_literal(v) -> bool:
  return isinstance(v, (ast.Set, ast.SetComp)) or (isinstance(v, ast.Call) and unparse(v.func) in _SET_CTORS)


def _is_set_annotation(a) -> bool:
  if a is None:
    return False
  t = unparse(a)
  return t.startswith(("typing.Set[", "Set[", "typing.FrozenSet[", "FrozenSet[", "set[", "frozenset[", "typing.AbstractSet[")) or t in ("set", "frozenset", "typing.Set", "typing.FrozenSet")


def set_attr_names(modules) -> typing.Set[str]:
  """Attribute names that hold a set somewhere in `modules` (class-level or self.x assignments)."""
  names = set()
  for m in modules:
    for n in ast.walk(m.tree):
      if isinstance(n, ast.ClassDef):
        for st in n.body:
          if isinstance(st, ast.Assign) and _is_set_literal(st.value):
            names.update(t.id for t in st.targets if isinstance(t, ast.Name))
          if isinstance(st, ast.AnnAssign) and isinstance(st.target, ast.Name) and (_is_set_annotation(st.annotation) or (st.value is not None and _is_set_literal(st.value))):
            names.add(st.target.id)
      if isinstance(n, (ast.Assign, ast.AnnAssign)):
        ts = n.targets if isinstance(n, ast.Assign) else [n.target]
        for t in ts:
          if isinstance(t, ast.Attribute) and isinstance(t.value, ast.Name) and t.value.id == "self":
            if (n.value is not None and _is_set_literal(n.value)) or (isinstance(n, ast.AnnAssign) and _is_set_annotation(n.annotation)):
              names.add(t.attr)
  return names


def _is_set_expr(e, scope, attr_names) -> bool:
  if _is_set_literal(e):
    return True
  if isinstance(e, ast.BinOp) and isinstance(e.op, (ast.BitOr, ast.BitAnd, ast.Sub, ast.BitXor)):
    return _is_set_expr(e.left, scope, attr_names) or _is_set_expr(e.right, scope, attr_names)
  if isinstance(e, ast.Call) and isinstance(e.func, ast.Attribute) and e.func.attr in ("union", "intersection", "difference", "symmetric_difference", "copy") and _is_set_expr(e.func.value, scope, attr_names):
    return True
  if isinstance(e, ast.Attribute) and e.attr in attr_names:
    return True
  if isinstance(e, ast.Name):
    if isinstance(scope, (ast.FunctionDef, ast.AsyncFunctionDef)):
      for a in scope.args.args + scope.args.kwonlyargs + scope.args.posonlyargs:
        if a.arg == e.id and _is_set_annotation(a.annotation):
          return True
    for st in ast.walk(scope):
      if isinstance(st, ast.Assign) and any(isinstance(x, ast.Name) and x.id == e.id for x in st.targets) and _is_set_literal(st.value):
        return True
      if isinstance(st, ast.AnnAssign) and isinstance(st.target, ast.Name) and st.target.id == e.id and (_is_set_annotation(st.annotation) or (st.value is not None and _is_set_literal(st.value))):
        return True
  return False


def _order_free_body(body) -> bool:
  for st in body:
    if isinstance(st, ast.Expr) and isinstance(st.value, ast.Call) and isinstance(st.value.func, ast.Attribute) and st.value.func.attr in ("add", "discard", "update"):
      continue
    return False
  return True


def _unordered_view(e, attr_names) -> bool:
  """`<x>.<attr>` or `<x>.<attr>.items() / .values() / .keys()` for an attribute tabled as unordered."""
  if isinstance(e, ast.Call) and isinstance(e.func, ast.Attribute) and e.func.attr in ("items", "values", "keys") and not e.args:
    e = e.func.value
  return isinstance(e, ast.Attribute) and e.attr in attr_names


def _only_order_free_uses(scope, name: str, binding) -> bool:
  """Every read of local `name` in scope is an argument of an order-insensitive consumer."""
  from ..core import parent
  uses = [n for n in ast.walk(scope) if isinstance(n, ast.Name) and n.id == name and isinstance(n.ctx, ast.Load)]
  if not uses:
    return True
  for u in uses:
    p = parent(u)
    if not (isinstance(p, ast.Call) and unparse(p.func) in _ORDER_FREE and u in p.args):
      return False
  return True


def set_iteration(ctx, modules, rule="DET-set", attr_modules=None, unordered_attrs=(), exempt=None, what="set"):
  """Flags every order-sensitive iteration over a set (for loop, list/tuple/dict comprehension or
  generator not consumed by sorted/len/min/max/sum/any/all/set, list()/tuple()/join of a set).
  `unordered_attrs`: attribute names of dicts whose insertion order carries no meaning (their
  views are treated like sets).  `exempt`: {function qualname: reason}."""
  from ..core import enclosing, parent
  mods = list(_iter_modules(ctx, modules))
  attr_names = set_attr_names(attr_modules if attr_modules is not None else mods) if what == "set" else set()
  unordered_attrs = set(unordered_attrs)
  exempt = exempt or {}
  n = 0

  def is_unordered(e, scope):
    return _is_set_expr(e, scope, attr_names) or _unordered_view(e, unordered_attrs)
  for m in mods:
    for node in ast.walk(m.tree):
      it = None
      scope = enclosing(node, (ast.FunctionDef, ast.AsyncFunctionDef)) or m.tree
      if isinstance(node, ast.For):
        if _order_free_body(node.body):
          continue
        it = node.iter
      elif isinstance(node, (ast.ListComp, ast.GeneratorExp, ast.DictComp)):
        p = parent(node)
        if isinstance(p, ast.Call) and unparse(p.func) in _ORDER_FREE and node in p.args:
          continue
        if isinstance(p, ast.Assign) and len(p.targets) == 1 and isinstance(p.targets[0], ast.Name) and _only_order_free_uses(scope, p.targets[0].id, p):
          continue
        for g in node.generators:
          if is_unordered(g.iter, scope):
            it = g.iter
      elif isinstance(node, ast.Call) and node.args and (unparse(node.func) in ("list", "tuple", "enumerate", "iter", "next") or (isinstance(node.func, ast.Attribute) and node.func.attr in ("join", "extend"))):
        it = node.args[0]
      if it is None:
        continue
      if is_unordered(it, scope):
        n += 1
        ctx.unit(m)
        sn = ctx.ix.scope_name(m, node)
        if sn in exempt:
          ctx.ok(rule, f"{sn}|iteration over {short(it, 40)}|exempt", ctx.where(m, node), "tabled: " + exempt[sn])
          continue
        ctx.bad(rule, f"{sn}|iteration over {short(it, 40)}", ctx.where(m, node),
                f"`{short(node, 70)}` iterates over the {what} `{short(it, 40)}`: " +
                ("the order depends on the hash seed of the process, so the result may differ from run to run" if what == "set"
                 else "its order is the order in which the entries were created, not their key order"))
  return n


# ---------------------------------------------------------------------------------------
# LINT-i: a number that may legitimately be zero is defaulted with `or`
# ---------------------------------------------------------------------------------------

_NUMERIC_CTORS = {"int", "float", "round", "len", "Fraction", "abs", "ord"}


def falsy_numeric_default(ctx, modules, rule="LINT-i"):
  """`int(x) or d`, `float(x) or d`, `len(x) or d` (also under a conditional expression test):
  the default replaces the value 0 as well as a missing value."""
  n = 0
  for m in _iter_modules(ctx, modules):
    for node in ast.walk(m.tree):
      if isinstance(node, ast.BoolOp) and isinstance(node.op, ast.Or) and len(node.values) >= 2:
        first = node.values[0]
        if isinstance(first, ast.Name) and isinstance(node.values[-1], ast.Constant) and isinstance(node.values[-1].value, (int, float)) and not isinstance(node.values[-1].value, bool) \
            and node.values[-1].value != 0:
          # a local that was computed by int() / float() / len() ... (directly, in a conditional expression or through tuple unpacking)
          fn_ = getattr(node, "_parent", None)
          while fn_ is not None and not isinstance(fn_, (ast.FunctionDef, ast.AsyncFunctionDef)):
            fn_ = getattr(fn_, "_parent", None)
          numeric_local = False
          for st in ast.walk(fn_) if fn_ is not None else []:
            if isinstance(st, ast.Assign) and any(isinstance(t, ast.Name) and t.id == first.id for tg in st.targets for t in ast.walk(tg)):
              if any(isinstance(c, ast.Call) and isinstance(c.func, ast.Name) and c.func.id in _NUMERIC_CTORS for c in ast.walk(st.value)):
                numeric_local = True
          if numeric_local and not isinstance(getattr(node, "_parent", None), (ast.If, ast.While, ast.BoolOp, ast.UnaryOp)):
            n += 1
            ctx.unit(m)
            ctx.bad(rule, f"{ctx.ix.scope_name(m, node)}|{short(node, 60)}", ctx.where(m, node),
                    f"`{short(node, 70)}`: `{first.id}` is a number computed above; `or` replaces the value 0 as well as a missing value (a legitimate 0 - transparent alpha, zero offset - becomes {short(node.values[-1], 20)})")
          continue
        if isinstance(first, ast.Call) and isinstance(first.func, ast.Name) and first.func.id in _NUMERIC_CTORS \
            and not isinstance(node.values[-1], ast.Compare) and not isinstance(getattr(node, "_parent", None), (ast.If, ast.While, ast.BoolOp, ast.UnaryOp)):
          n += 1
          ctx.unit(m)
          ctx.bad(rule, f"{ctx.ix.scope_name(m, node)}|{short(node, 60)}", ctx.where(m, node),
                  f"`{short(node, 70)}` uses `or` to supply a default for a number: the value 0 is replaced as well (a legitimate 0 - transparent alpha, zero offset - becomes {short(node.values[-1], 20)})")
  return n


# (j) -------------------------------------------------------------------------------------
_ITEM_ERRORS = {"KeyError", "ValueError", "IndexError", "LookupError", "TypeError", "AttributeError"}


def handler_around_loop(ctx, modules, rule="LINT-j"):
  """`try: for x in items: ...  except KeyError: log` - the handler tolerates a bad item, but because
  it sits around the loop the first bad item also ends the processing of every item after it.  Flagged
  when the try body is (ends with) a loop, the handler names an item-level error class and neither
  re-raises nor returns / breaks out on purpose."""
  n = 0
  for m in _iter_modules(ctx, modules):
    for node in ast.walk(m.tree):
      if not isinstance(node, ast.Try) or not node.body or not isinstance(node.body[-1], (ast.For, ast.While)):
        continue
      if any(not isinstance(st, (ast.For, ast.While, ast.Assign, ast.AnnAssign)) for st in node.body):
        continue
      for h in node.handlers:
        names = {unparse(t).split(".")[-1] for t in (h.type.elts if isinstance(h.type, ast.Tuple) else [h.type])} if h.type is not None else set()
        if not (names & _ITEM_ERRORS):
          continue
        if any(isinstance(x, (ast.Raise, ast.Return, ast.Break)) for st in h.body for x in ast.walk(st)):
          continue
        n += 1
        ctx.bad(rule, f"{ctx.ix.scope_name(m, node)}|except {', '.join(sorted(names))} around `{short(node.body[-1], 40)}`", ctx.where(m, h),
                f"the handler for {', '.join(sorted(names))} encloses the whole loop: the first item that raises ends the loop, and the items after it are silently not processed")
  return n


# (k) -------------------------------------------------------------------------------------
_NUM_ANN = {"int", "float", "Fraction", "Number", "Real", "Rational"}


def numeric_field_truthiness(ctx, classes, rule="LINT-k"):
  """`if self.x:` / `a if self.x else b` / `self.x and ...` where x is an instance field declared
  with a numeric type: the test is also false for the number 0, which is a legal value of such a
  field (a line position of 0 %, an offset of 0 s), so 0 is treated like "not set"."""
  n = 0
  for c in classes:
    init = c.methods.get("__init__")
    if init is None:
      continue
    numeric = set()
    for st in own_nodes(init.node):
      if isinstance(st, ast.AnnAssign) and isinstance(st.target, ast.Attribute) and isinstance(st.target.value, ast.Name) and st.target.value.id == "self":
        names = {x.id for x in ast.walk(st.annotation) if isinstance(x, ast.Name)} | {x.attr for x in ast.walk(st.annotation) if isinstance(x, ast.Attribute)}
        if names & _NUM_ANN and not names & {"bool", "str", "List", "Dict", "list", "dict", "Set", "Tuple"}:
          numeric.add(st.target.attr)
    if not numeric:
      continue
    for m in c.methods.values():
      for node in own_nodes(m.node):
        tests = []
        if isinstance(node, (ast.If, ast.IfExp, ast.While)):
          tests = [node.test]
        elif isinstance(node, ast.BoolOp):
          tests = node.values[:-1] if isinstance(node.op, (ast.And, ast.Or)) else []
        for t in tests:
          parts = [t]
          while parts:
            p_ = parts.pop()
            if isinstance(p_, ast.UnaryOp) and isinstance(p_.op, ast.Not):
              parts.append(p_.operand)
            elif isinstance(p_, ast.BoolOp):
              parts.extend(p_.values)
            elif isinstance(p_, ast.Attribute) and isinstance(p_.value, ast.Name) and p_.value.id == "self" and p_.attr in numeric:
              n += 1
              ctx.unit(c.module)
              ctx.bad(rule, f"{m.qualname}|truthiness of self.{p_.attr}", ctx.where(m.module, p_),
                      f"`self.{p_.attr}` is a number ({c.name}.__init__ declares it so) and is tested by truthiness: the value 0 takes the branch for `not set` "
                      f"(e.g. a line position of 0 % is dropped); test `is not None` instead")
  return n


# (l) -------------------------------------------------------------------------------------
def _strip_default(e):
  if isinstance(e, ast.BoolOp) and isinstance(e.op, ast.Or) and len(e.values) == 2 and isinstance(e.values[1], ast.Constant):
    return e.values[0]
  return e


def duplicate_components(ctx, modules, rule="LINT-l"):
  """A tuple / list / set display that lists the same computed component twice (`(r.get_begin() or 0,
  r.get_begin(), ...)`) or a dict display with the same key twice: the second occurrence adds nothing,
  so a key built this way does not tell apart what the missing component would have, and a table built
  this way silently loses the first entry.  Type subscripts (`Tuple[X, X]`) are not displays."""
  n = 0
  for m in _iter_modules(ctx, modules):
    for node in ast.walk(m.tree):
      dup = None
      if isinstance(node, (ast.Tuple, ast.List, ast.Set)) and len(node.elts) >= 2 and isinstance(getattr(node, "ctx", ast.Load()), ast.Load):
        par = parent(node)
        if isinstance(par, ast.Subscript) and par.slice is node:
          continue
        # (constants and enum members may repeat legitimately in a table row; a repeated *computation* is the slip)
        txt = [unparse(_strip_default(e)) for e in node.elts if any(isinstance(x, ast.Call) for x in ast.walk(_strip_default(e)))]
        dup = sorted({t for t in txt if txt.count(t) > 1})
        what = "component"
      elif isinstance(node, ast.Dict):
        txt = [unparse(k) for k in node.keys if k is not None]
        dup = sorted({t for t in txt if txt.count(t) > 1})
        what = "key"
      if dup:
        n += 1
        ctx.bad(rule, f"{ctx.ix.scope_name(m, node)}|{what} `{dup[0]}` listed twice", ctx.where(m, node),
                f"`{short(node, 90)}` lists the {what} `{dup[0]}` twice: " +
                ("the later entry silently replaces the earlier one" if what == "key" else
                 "the repetition stands where a different component belongs, so values that differ only in that component are treated as the same"))
  return n


# (n) -------------------------------------------------------------------------------------
def bare_break_in_item_loop(ctx, funcs, rule="LOOP-break", exempt=None):
  """`for item in collection: ... if <test on the item>: break` where the branch does nothing but leave the loop
  (logging aside): the first item that meets the test also ends the processing of every item after it.  A loop
  that *searches* looks different - it records what it found before it leaves, or its variable is read after the
  loop, or it has an `else:` - and a loop over input that ends at a sentinel tests the item against None /
  emptiness.  Everything else is a `continue` that was written as `break`."""
  n = 0
  for f in funcs:
    for loop in own_nodes(f.node):
      if not isinstance(loop, ast.For) or loop.orelse:
        continue
      if isinstance(loop.iter, ast.Call) and unparse(loop.iter.func).split(".")[-1] in ("count", "cycle", "repeat"):
        continue          # an endless iterator: leaving by `break` is the only way out
      targets = {x.id for x in ast.walk(loop.target) if isinstance(x, ast.Name)}
      # flags: names that the loop body assigns only the constants True / False (an inner loop sets one, the outer test reads it)
      stores = {}
      for st in loop.body:
        for x in ast.walk(st):
          if isinstance(x, ast.Assign) and len(x.targets) == 1 and isinstance(x.targets[0], ast.Name):
            stores.setdefault(x.targets[0].id, []).append(isinstance(x.value, ast.Constant) and isinstance(x.value.value, bool))
          elif isinstance(x, ast.Name) and isinstance(x.ctx, ast.Store) and not isinstance(getattr(x, "_parent", None), ast.Assign):
            stores.setdefault(x.id, []).append(False)
      assigned = {k for k, v in stores.items() if v and all(v)}
      # is a loop variable (or a local derived from it in the body) read after the loop?  (search / prefix idiom: the item at which
      # the loop stopped is the result)
      derived = set(targets)
      for st in loop.body:
        for x in ast.walk(st):
          if isinstance(x, ast.Assign) and len(x.targets) == 1 and isinstance(x.targets[0], ast.Name) and any(isinstance(y, ast.Name) and y.id in derived for y in ast.walk(x.value)):
            derived.add(x.targets[0].id)
      after = False
      par = parent(loop)
      for fld in ("body", "orelse", "finalbody"):
        blk = getattr(par, fld, None)
        if isinstance(blk, list) and any(x is loop for x in blk):
          idx = [id(x) for x in blk].index(id(loop))
          for st in blk[idx + 1:]:
            if any(isinstance(x, ast.Name) and x.id in derived and isinstance(x.ctx, ast.Load) for x in ast.walk(st)):
              after = True
      def nearest_loop(node):
        cur = parent(node)
        while cur is not None and not isinstance(cur, (ast.For, ast.While, ast.FunctionDef, ast.AsyncFunctionDef)):
          cur = parent(cur)
        return cur
      # a loop that records what it found before it leaves (`found = item; break`) is a search: there a bare break on an item test
      # is a skipped candidate; without a recording break, a variable of the loop that is read afterwards marks the prefix / index idiom
      recording = False
      for b_ in own_nodes(loop):
        if isinstance(b_, ast.Break) and nearest_loop(b_) is loop:
          blk = next((getattr(parent(b_), fld) for fld in ("body", "orelse") if isinstance(getattr(parent(b_), fld, None), list) and any(x is b_ for x in getattr(parent(b_), fld))), [])
          if any(isinstance(x, (ast.Assign, ast.AugAssign, ast.Return)) for x in blk):
            recording = True
      if after and not recording:
        continue
      for br in own_nodes(loop):
        if not isinstance(br, ast.If):
          continue
        body = [s for s in br.body if not (isinstance(s, ast.Expr) and isinstance(s.value, ast.Call) and "LOGGER" in unparse(s.value.func).upper())]
        if not (len(body) == 1 and isinstance(body[0], ast.Break)) or nearest_loop(body[0]) is not loop:
          continue
        n += 1
        test = br.test
        names = {x.id for x in ast.walk(test) if isinstance(x, ast.Name)}
        # sentinel: `item is None`, `not item`, `item == ""`
        def _sentinel(tt):
          t = tt.operand if isinstance(tt, ast.UnaryOp) and isinstance(tt.op, ast.Not) else tt
          return (isinstance(t, ast.Name) and t.id in targets) or \
            (isinstance(t, ast.Compare) and len(t.ops) == 1 and isinstance(t.left, ast.Name) and t.left.id in targets and isinstance(t.comparators[0], ast.Constant) and t.comparators[0].value in (None, "", b""))
        # (a conjunction with a sentinel test can only hold at the sentinel)
        sentinel = _sentinel(test) or (isinstance(test, ast.BoolOp) and isinstance(test.op, ast.And) and any(_sentinel(v) for v in test.values))
        flag = bool(names) and names <= (assigned - targets)
        key = f"{f.qualname}|for {unparse(loop.target)} in {short(loop.iter, 40)}|if {short(test, 50)}: break"
        if sentinel or flag:
          ctx.ok(rule, key, ctx.where(f.module, br), "end-of-input sentinel" if sentinel else "propagates a flag set in the loop body")
          continue
        why = (exempt or {}).get(f.qualname)
        if why:
          ctx.ok(rule, key + "|tabled", ctx.where(f.module, br), "tabled: " + why)
          continue
        ctx.unit(f.module)
        ctx.bad(rule, key, ctx.where(f.module, br),
                f"`if {short(test, 60)}: break` leaves the loop over `{short(loop.iter, 40)}` without recording anything: the first item that meets the test ends the processing of "
                f"all items after it (a skipped item calls for `continue`)")
  return n


# (n) -------------------------------------------------------------------------------------
def _opt_num_ann(r) -> bool:
  if r is None:
    return False
  txt = unparse(r).replace("typing.", "")
  names = {x.id for x in ast.walk(r) if isinstance(x, ast.Name)} | {x.attr for x in ast.walk(r) if isinstance(x, ast.Attribute)}
  return txt.startswith("Optional[") and bool(names & _NUM_ANN) and not names & {"bool", "str", "List", "Dict", "list", "dict", "Set", "Tuple", "tuple"}


def optional_number_getters_typed(ix: Index):
  """(names declared Optional[number] somewhere, names also declared otherwise somewhere)"""
  yes, no = set(), set()
  for f in ix.funcs.values():
    if f.cls is None:
      continue
    (yes if _opt_num_ann(f.node.returns) else no).add(f.name)
  return yes, no & yes


def optional_number_getters(ix: Index) -> typing.Set[str]:
  """Names of the package's methods whose declared result is Optional[<number>] (get_begin, get_end, ...): every
  definition of the name that carries an annotation agrees."""
  yes, no = set(), set()
  for f in ix.funcs.values():
    r = f.node.returns
    if r is None or f.cls is None:
      continue
    txt = unparse(r).replace("typing.", "")
    names = {x.id for x in ast.walk(r) if isinstance(x, ast.Name)} | {x.attr for x in ast.walk(r) if isinstance(x, ast.Attribute)}
    if txt.startswith("Optional[") and names & _NUM_ANN and not names & {"bool", "str", "List", "Dict", "list", "dict", "Set", "Tuple"}:
      yes.add(f.name)
    else:
      no.add(f.name)
  return yes - no


def optional_number_truthiness(ctx, funcs, rule="LINT-n"):
  """`if x.get_end():`, `x.get_begin() and ...`, `a if e.get_end() else b` and the same on a local that only ever holds
  such a result: the getter is declared Optional[number], the number 0 is a legal value distinct from None (an end of 0 s:
  never active), and the truthiness test sends it down the branch for "not specified"."""
  ix = ctx.ix
  from ..typing_lite import Typer, strip_opt
  ty = Typer(ix)
  yes, ambiguous = optional_number_getters_typed(ix)
  n = 0
  seen_ = set()
  for f in funcs:
    env = None

    def is_getter(call):
      nonlocal env
      if not (isinstance(call, ast.Call) and isinstance(call.func, ast.Attribute) and call.func.attr in yes and not call.args and not call.keywords):
        return False
      if call.func.attr not in ambiguous:
        return True
      # the name is also defined with another result type: the receiver's class decides
      if env is None:
        env = ty.env(f)
      if isinstance(call.func.value, ast.Name) and call.func.value.id == "self" and f.cls is not None:
        t = f.cls
      else:
        t = strip_opt(ty.expr_type(f.module, call.func.value, env, f.cls, f))
      ci = t if isinstance(t, ClassInfo) else (t[1] if isinstance(t, tuple) and len(t) > 1 and t[0] == "inst" and isinstance(t[1], ClassInfo) else None)
      if ci is None:
        return False
      m = ix.lookup_method(ci, call.func.attr)
      return m is not None and _opt_num_ann(m.node.returns)

    # locals that only hold results of such getters
    holds: typing.Dict[str, bool] = {}
    for st in own_nodes(f.node):
      if isinstance(st, ast.Assign) and len(st.targets) == 1 and isinstance(st.targets[0], ast.Name):
        v = st.value
        isg = is_getter(v)
        holds[st.targets[0].id] = holds.get(st.targets[0].id, True) and isg
      elif isinstance(st, (ast.AugAssign, ast.For, ast.With, ast.NamedExpr)):
        for t in ast.walk(st.target if hasattr(st, "target") else st):
          if isinstance(t, ast.Name) and isinstance(getattr(t, "ctx", None), ast.Store):
            holds[t.id] = False
    for a_ in f.node.args.posonlyargs + f.node.args.args + f.node.args.kwonlyargs:
      holds[a_.arg] = _opt_num_ann(a_.annotation) and a_.arg not in holds
    for node in own_nodes(f.node):
      tests = []
      if isinstance(node, (ast.If, ast.IfExp, ast.While)):
        tests = [node.test]
      elif isinstance(node, ast.BoolOp) and isinstance(node.op, ast.And):
        tests = node.values[:-1]
      elif isinstance(node, ast.BoolOp) and isinstance(node.op, ast.Or):
        # `x or <default>` in value position maps None and 0 to the default: harmless only when the default is 0
        last = node.values[-1]
        zero = (isinstance(last, ast.Constant) and last.value == 0 and not isinstance(last.value, bool)) or unparse(last) in ("Fraction(0)", "Fraction(0, 1)")
        tests = [] if zero else node.values[:-1]
      elif isinstance(node, ast.UnaryOp) and isinstance(node.op, ast.Not):
        tests = [node.operand]
      for t in tests:
        parts = [t]
        while parts:
          q = parts.pop()
          if isinstance(q, ast.UnaryOp) and isinstance(q.op, ast.Not):
            parts.append(q.operand)
          elif isinstance(q, ast.BoolOp):
            parts.extend(q.values)
          else:
            hit = None
            if is_getter(q):
              hit = unparse(q)
            elif isinstance(q, ast.Name) and holds.get(q.id):
              hit = q.id
            if hit is not None and id(q) not in seen_:
              seen_.add(id(q))
              n += 1
              ctx.bad(rule, f"{f.qualname}|truthiness of {hit}", ctx.where(f.module, q),
                      f"`{hit}` is an optional number (the getter is declared Optional[...]): the truthiness test treats the value 0 like None, so e.g. an element with end = 0 "
                      f"(never active) is handled as if it had no end; test `is not None` instead")
  return n


# (o) -------------------------------------------------------------------------------------
def falsy_mapping_default(ctx, modules, rule="LINT-o"):
  """`v = d.get(k)` ... `if not v [and ..]: v = <default>` / `v = v or <default>` / `v if v else <default>`: a value of any
  type looked up in a mapping (a configuration dictionary, parsed JSON) is replaced by the default when it is falsy, so a
  configured 0, False or "" silently turns into the default.  Counted: every local bound to a `.get(..)` result in the modules."""
  n = 0
  for m in _iter_modules(ctx, modules):
    for fn in [x for x in ast.walk(m.tree) if isinstance(x, (ast.FunctionDef, ast.AsyncFunctionDef))]:
      got = {}
      for st in ast.walk(fn):
        if isinstance(st, ast.Assign) and len(st.targets) == 1 and isinstance(st.targets[0], ast.Name) and isinstance(st.value, ast.Call) \
            and isinstance(st.value.func, ast.Attribute) and st.value.func.attr == "get" and 1 <= len(st.value.args) <= 2:
          got[st.targets[0].id] = st
      for name, src in got.items():
        n += 1
        ctx.unit(m)

        def truthy_use(t):
          """bare `name` / `not name` as (a conjunct / disjunct of) a test"""
          if isinstance(t, ast.Name):
            return t.id == name
          if isinstance(t, ast.UnaryOp) and isinstance(t.op, ast.Not):
            return truthy_use(t.operand)
          if isinstance(t, ast.BoolOp):
            return any(truthy_use(v) for v in t.values)
          return False
        hit = None
        for node in ast.walk(fn):
          if isinstance(node, ast.If) and truthy_use(node.test):
            blocks = node.body + node.orelse
            if any(isinstance(a, ast.Assign) and any(isinstance(t, ast.Name) and t.id == name for t in a.targets) for b in blocks for a in ast.walk(b)):
              hit = node
          elif isinstance(node, ast.IfExp) and truthy_use(node.test) and isinstance(getattr(node, "_parent", None), ast.Assign):
            hit = node
          elif isinstance(node, ast.BoolOp) and isinstance(node.op, ast.Or) and isinstance(node.values[0], ast.Name) and node.values[0].id == name \
              and isinstance(getattr(node, "_parent", None), (ast.Assign, ast.keyword, ast.Call, ast.Return)):
            hit = node
        key = f"{ctx.ix.scope_name(m, src)}|{name} = {short(src.value, 50)}"
        if hit is not None:
          ctx.bad(rule, key, ctx.where(m, hit), f"`{name}` comes from `{short(src.value, 50)}` and `{short(hit.test if isinstance(hit, (ast.If, ast.IfExp)) else hit, 60)}` selects the default by truthiness: "
                  "a configured 0, False or empty string is replaced by the default as if it were absent")
        else:
          ctx.ok(rule, key, ctx.where(m, src), "not defaulted by truthiness")
  return n
