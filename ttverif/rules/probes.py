"""Interpretation of small value-level functions of the shared modules on probe values.

These functions (colour parser, Text storage, style validators) are used by several readers, writers and
filters; a property anchored in those relies on them, so each property's check evaluates them with
`minieval` on a fixed table of probes whose expected results come from the format definitions, not from
the code.  NotConst (construct outside the interpreted subset) is UNDECIDED, never a verdict.
"""
from __future__ import annotations

import ast
from fractions import Fraction

from ..consteval import EnumMember, NotConst, Raised, Sym
from ..core import unparse
from .minieval import MiniEval, Node

# <color> of TTML2 10.3.5: #rrggbb, #rrggbbaa, rgb(r,g,b), rgba(r,g,b,a), named colours (case-insensitive); nothing around it
COLOR_ACCEPT = {
  "#11223300": (0x11, 0x22, 0x33, 0),
  "#112233": (0x11, 0x22, 0x33, 255),
  "#FFffFF80": (255, 255, 255, 0x80),
  "#00000001": (0, 0, 0, 1),
  "rgb(1,2,3)": (1, 2, 3, 255),
  "rgb(0,0,0)": (0, 0, 0, 255),
  "rgba(1,2,3,0)": (1, 2, 3, 0),
  "rgba(255,254,253,252)": (255, 254, 253, 252),
  "transparent": (0, 0, 0, 0),
  "red": (255, 0, 0, 255),
  "White": (255, 255, 255, 255),
  "black": (0, 0, 0, 255),
}
COLOR_REJECT = ["", "#1122334", "#112233 ", " #112233", "#11223", "#1122", "#11223344 ", "#1122334455", "#ff00001", "rgb(255,0,0)x", "xrgb(1,2,3)",
                "rgba(255,0,0,255) none", "rgb(1,2)", "rgba(1,2,3)", "#gg0000", "#112233\n"]


def check_color_parser(ctx, rule="FIN-color"):
  ix = ctx.ix
  f = ix.func("ttconv.utils:parse_color")
  ctx.unit(f.module)
  n = 0
  for text, want in COLOR_ACCEPT.items():
    key = f"{f.qualname}|{text!r} is the colour {want}"
    try:
      r = MiniEval(ix).call(f, [text])
    except Raised:
      ctx.bad(rule, key, ctx.where(f.module, f.node), f"interpreted on {text!r}, the colour parser raises: a colour every TTML writer may emit is rejected")
      n += 1
      continue
    except NotConst as ex:
      ctx.undecide(rule, f"{f.qualname} on {text!r}: not in the interpreted subset ({ex})")
      continue
    got = r.get("components") if isinstance(r, dict) else None
    ctx.check(got is not None and tuple(got) == want, rule, key, ctx.where(f.module, f.node), f"interpreted: {got}",
              f"interpreted on {text!r}, the colour parser returns components {got!r} instead of {want!r} (red, green, blue, alpha; alpha 255 only when the value has none)")
    n += 1
  for text in COLOR_REJECT:
    key = f"{f.qualname}|{text!r} is not a colour"
    try:
      r = MiniEval(ix).call(f, [text])
    except Raised:
      ctx.ok(rule, key, ctx.where(f.module, f.node), "interpreted: raises")
      n += 1
      continue
    except NotConst as ex:
      ctx.undecide(rule, f"{f.qualname} on {text!r}: not in the interpreted subset ({ex})")
      continue
    ctx.bad(rule, key, ctx.where(f.module, f.node),
            f"interpreted on {text!r}, the colour parser returns {r.get('components') if isinstance(r, dict) else r!r} instead of raising: a value that is not a <color> is accepted "
            "(a prefix or a part of it is used, the rest is ignored)")
    n += 1
  return n


TEXT_PROBES = ["plain", "é", "Ω Å", "ﬁ", "aَّ", " two  spaces ", "", "ẛ̣"]


def check_text_identity(ctx, rule="ID-text"):
  """model.Text stores the string it is given, code point for code point."""
  ix = ctx.ix
  cls = ix.cls("ttconv.model:Text")
  n = 0
  for mname, argpos in (("set_text", 1), ("__init__", 2)):
    f = ix.lookup_method(cls, mname)
    if f is None:
      raise_anchor(ix, f"ttconv.model:Text.{mname}")
    ctx.unit(f.module)
    for t in TEXT_PROBES:
      key = f"{f.qualname}|stores {t!a} unchanged"
      me = MiniEval(ix, node_methods={}, opaque_calls={"super": Sym("super"), "__init__": None})
      this = _Obj()
      try:
        stored = _run_storing(me, ix, cls, f, this, t, argpos)
      except Raised:
        ctx.bad(rule, key, ctx.where(f.module, f.node), f"interpreted with the text {t!r}, {f.short} raises")
        n += 1
        continue
      except NotConst as ex:
        ctx.undecide(rule, f"{f.qualname} on {t!r}: not in the interpreted subset ({ex})")
        continue
      ctx.check(stored == t, rule, key, ctx.where(f.module, f.node), "interpreted: stored as given",
                f"interpreted with the text {t!a}, {f.short} stores {stored!a}: the text of the model is no longer the text the reader decoded "
                "(readers' character tables and writers' output are compared code point by code point)")
      n += 1
  return n


class _Obj(dict):
  """a record standing for `self` of a plain class of the package"""


def raise_anchor(ix, q):
  from ..core import AnalysisError
  raise AnalysisError(f"anchor function vanished: {q}")


def _run_storing(me, ix, cls, f, this, text, argpos):
  rec = {"__record__": cls.name}
  params = [a.arg for a in f.node.args.posonlyargs + f.node.args.args]
  args = [rec]
  if f.name == "__init__":
    # Text(doc, text): the constructor of the base class is not interpreted; set_text is
    args = [rec, None, text][:len(params)]
    if len(params) < 3:
      raise NotConst("constructor signature")
  else:
    args = [rec, text]
  me.call(f, args)
  if "_text" not in rec:
    raise NotConst("no _text field written")
  return rec["_text"]


def check_validators_strict(ctx, rule="VAL-strict"):
  """A style property's validate() accepts only instances of the property's own type: for every property whose initial
  value is an enumeration member or a bool, the raw tokens of the enumeration (resp. the numbers 0 and 1) are rejected;
  LengthType rejects raw unit symbols and non-numbers.  (Code that tests `is DisplayType.none`, `units is Units.px`
  depends on that.)"""
  ix = ctx.ix
  sp = ix.cls("ttconv.style_properties:StyleProperties")
  ctx.unit(sp.module)
  n_props = 0
  n = 0
  for name, ci in sorted(sp.nested.items()):
    v = ci.methods.get("validate")
    mi = ci.methods.get("make_initial_value")
    if v is None or mi is None:
      continue
    try:
      init = MiniEval(ix).call(mi, [])
    except (NotConst, Raised):
      continue
    probes = []
    if isinstance(init, EnumMember):
      eci = ix.classes.get(init.cls)
      if eci is None:
        continue
      tbl = MiniEval(ix)._enum_table(eci, mi)
      probes = [m.value for m in tbl.values() if isinstance(m.value, (str, int)) and not isinstance(m.value, bool)]
      valid = [init]
    elif isinstance(init, bool):
      probes = [0, 1]
      valid = [True, False]
    else:
      continue
    n_props += 1
    for ok_ in valid:
      try:
        r = MiniEval(ix).call(v, [ok_])
      except Raised:
        r = "raises"
      except NotConst as ex:
        ctx.undecide(rule, f"{v.qualname} on {ok_!r}: not in the interpreted subset ({ex})")
        continue
      ctx.check(r is True, rule, f"{v.qualname}|accepts {ok_!r}", ctx.where(v.module, v.node), "interpreted: True",
                f"interpreted on the valid value {ok_!r}, validate() gives {r!r}")
      n += 1
    for p in probes:
      key = f"{v.qualname}|rejects the raw value {p!r}"
      try:
        r = MiniEval(ix).call(v, [p])
      except Raised:
        r = False
      except NotConst as ex:
        ctx.undecide(rule, f"{v.qualname} on {p!r}: not in the interpreted subset ({ex})")
        continue
      ctx.check(not MiniEval.truth(r), rule, key, ctx.where(v.module, v.node), "interpreted: rejected",
                f"interpreted on {p!r} (not an instance of the property's type, only equal to the value of one), validate() accepts it: the raw value is stored in the model, "
                "and every later test by identity (`is DisplayType.none`, `is Units.px`, `is True`) silently fails on it")
      n += 1
  ctx.floor(rule, "style properties with an enumeration or bool type", n_props, 15)
  # LengthType's own check
  lt = ix.cls("ttconv.style_properties:LengthType")
  post = lt.methods.get("__post_init__")
  if post is None:
    ctx.bad(rule, "ttconv.style_properties:LengthType|checks its fields", ctx.where(lt.module, lt.node), "LengthType no longer checks its fields on construction")
    return n
  units = MiniEval(ix)._enum_table(lt.nested["Units"], post)
  cases = [({"value": 1, "units": units["px"]}, True), ({"value": Fraction(1, 2), "units": units["pct"]}, True)]
  cases += [({"value": 1, "units": m.value}, False) for m in units.values() if isinstance(m.value, str)]
  cases += [({"value": "1", "units": units["px"]}, False), ({"value": None, "units": units["px"]}, False), ({"value": 1, "units": None}, False)]
  for fields, ok_ in cases:
    rec = {"__record__": "LengthType", **fields}
    shown = f"LengthType({fields['value']!r}, {fields['units']!r})"
    try:
      MiniEval(ix).call(post, [rec])
      got = True
    except Raised:
      got = False
    except NotConst as ex:
      ctx.undecide(rule, f"{post.qualname} on {shown}: not in the interpreted subset ({ex})")
      continue
    ctx.check(got == ok_, rule, f"{post.qualname}|{shown} is {'accepted' if ok_ else 'rejected'}", ctx.where(post.module, post.node), "interpreted",
              f"interpreted, {shown} is {'accepted' if got else 'rejected'}: " + ("a raw unit symbol / non-number is stored in a length; `units is LengthType.Units.px` and the arithmetic of the "
              "snapshot then fall through and the length reaches the output in its source units" if got else "a valid length can no longer be built"))
    n += 1
  return n
