"""Interpretation of small value-level functions of the shared modules on probe values.

These functions (colour parser, Text storage, style validators) are used by several readers, writers and
filters; a property anchored in those relies on them, so each property's check evaluates them with
`minieval` on a fixed table of probes whose expected results come from the format definitions, not from
the code.  NotConst (construct outside the interpreted subset) is UNDECIDED, never a verdict.
"""
from __future__ import annotations

import ast
from fractions import Fraction

from ..consteval import EnumMember, NotConst, Raised, Sym
from ..core import unparse
from .minieval import MiniEval, Node

# <color> of TTML2 10.3.5: #rrggbb, #rrggbbaa, rgb(r,g,b), rgba(r,g,b,a), named colours (case-insensitive); nothing around it
COLOR_ACCEPT = {
  "#11223300": (0x11, 0x22, 0x33, 0),
  "#112233": (0x11, 0x22, 0x33, 255),
  "#FFffFF80": (255, 255, 255, 0x80),
  "#00000001": (0, 0, 0, 1),
  "rgb(1,2,3)": (1, 2, 3, 255),
  "rgb(0,0,0)": (0, 0, 0, 255),
  "rgba(1,2,3,0)": (1, 2, 3, 0),
  "rgba(255,254,253,252)": (255, 254, 253, 252),
  "transparent": (0, 0, 0, 0),
  "red": (255, 0, 0, 255),
  "White": (255, 255, 255, 255),
  "black": (0, 0, 0, 255),
}
COLOR_REJECT = ["", "#1122334", "#112233 ", " #112233", "#11223", "#1122", "#11223344 ", "#1122334455", "#ff00001", "rgb(255,0,0)x", "xrgb(1,2,3)",
                "rgba(255,0,0,255) none", "rgb(1,2)", "rgba(1,2,3)", "rgba(255,0,0)", "rgb(1,2,3,4)", "rgba(1,2,3,)", "#gg0000", "#112233\n"]


def check_color_parser(ctx, rule="FIN-color"):
  ix = ctx.ix
  f = ix.func("ttconv.utils:parse_color")
  ctx.unit(f.module)
  n = 0
  for text, want in COLOR_ACCEPT.items():
    key = f"{f.qualname}|{text!r} is the colour {want}"
    try:
      r = MiniEval(ix).call(f, [text])
    except Raised:
      ctx.bad(rule, key, ctx.where(f.module, f.node), f"interpreted on {text!r}, the colour parser raises: a colour every TTML writer may emit is rejected")
      n += 1
      continue
    except NotConst as ex:
      ctx.undecide(rule, f"{f.qualname} on {text!r}: not in the interpreted subset ({ex})")
      continue
    got = r.get("components") if isinstance(r, dict) else None
    ctx.check(got is not None and tuple(got) == want, rule, key, ctx.where(f.module, f.node), f"interpreted: {got}",
              f"interpreted on {text!r}, the colour parser returns components {got!r} instead of {want!r} (red, green, blue, alpha; alpha 255 only when the value has none)")
    n += 1
  for text in COLOR_REJECT:
    key = f"{f.qualname}|{text!r} is not a colour"
    try:
      r = MiniEval(ix).call(f, [text])
    except Raised as rx:
      # a malformed value is refused with the ValueError the readers catch - not by an operation that fails on the way
      # (int(None), a missing group), which surfaces as TypeError / IndexError and aborts the read
      ctx.check(bool(rx.args) and rx.args[0] == "ValueError", rule, key, ctx.where(f.module, f.node), "interpreted: raises ValueError",
                f"interpreted on {text!r}, the colour parser fails " + (f"with {rx.args[0]}" if rx.args else "inside an operation (a conversion of None, a missing group)")
                + " instead of raising ValueError: the readers catch ValueError only, so this value aborts the read")
      n += 1
      continue
    except NotConst as ex:
      ctx.undecide(rule, f"{f.qualname} on {text!r}: not in the interpreted subset ({ex})")
      continue
    ctx.bad(rule, key, ctx.where(f.module, f.node),
            f"interpreted on {text!r}, the colour parser returns {r.get('components') if isinstance(r, dict) else r!r} instead of raising: a value that is not a <color> is accepted "
            "(a prefix or a part of it is used, the rest is ignored)")
    n += 1
  return n


TEXT_PROBES = ["plain", "e\u0301", "\u2126 \u212b", "\ufb01", "a\u0651\u064e", " two  spaces ", "", "\u1e9b\u0323", "col1\tcol2", "\U0001F3B5 \U00020000", "a\u200bb\ufeff", "line\u2028sep", "\x0b\x0c\x1f", "\u200ertl\u200e", " lead and trail ", "\n\nline\n"]


def check_text_identity(ctx, rule="ID-text"):
  """model.Text stores the string it is given, code point for code point."""
  ix = ctx.ix
  cls = ix.cls("ttconv.model:Text")
  n = 0
  for mname, argpos in (("set_text", 1), ("__init__", 2)):
    f = ix.lookup_method(cls, mname)
    if f is None:
      raise_anchor(ix, f"ttconv.model:Text.{mname}")
    ctx.unit(f.module)
    for t in TEXT_PROBES:
      key = f"{f.qualname}|stores {t!a} unchanged"
      me = MiniEval(ix, node_methods={}, opaque_calls={"super": Sym("super"), "__init__": None})
      this = _Obj()
      try:
        stored = _run_storing(me, ix, cls, f, this, t, argpos)
      except Raised:
        ctx.bad(rule, key, ctx.where(f.module, f.node), f"interpreted with the text {t!r}, {f.short} raises")
        n += 1
        continue
      except NotConst as ex:
        ctx.undecide(rule, f"{f.qualname} on {t!r}: not in the interpreted subset ({ex})")
        continue
      ctx.check(stored == t, rule, key, ctx.where(f.module, f.node), "interpreted: stored as given",
                f"interpreted with the text {t!a}, {f.short} stores {stored!a}: the text of the model is no longer the text the reader decoded "
                "(readers' character tables and writers' output are compared code point by code point)")
      n += 1
  return n


class _Obj(dict):
  """a record standing for `self` of a plain class of the package"""


def raise_anchor(ix, q):
  from ..core import AnalysisError
  raise AnalysisError(f"anchor function vanished: {q}")


def _run_storing(me, ix, cls, f, this, text, argpos):
  rec = {"__record__": cls.name}
  params = [a.arg for a in f.node.args.posonlyargs + f.node.args.args]
  args = [rec]
  if f.name == "__init__":
    # Text(doc, text): the constructor of the base class is not interpreted; set_text is
    args = [rec, None, text][:len(params)]
    if len(params) < 3:
      raise NotConst("constructor signature")
  else:
    args = [rec, text]
  me.call(f, args)
  if "_text" not in rec:
    raise NotConst("no _text field written")
  return rec["_text"]


def mi_dummy(ci):
  """stand-in carrying the position of a property whose validate is a class attribute"""
  class _V:
    pass
  o = _V()
  o.module, o.node, o.qualname = ci.module, ci.node, f"{ci.qualname}.validate"
  return o


def check_validators_strict(ctx, rule="VAL-strict"):
  """A style property's validate() accepts only instances of the property's own type: for every property whose initial
  value is an enumeration member or a bool, the raw tokens of the enumeration (resp. the numbers 0 and 1) are rejected;
  LengthType rejects raw unit symbols and non-numbers.  (Code that tests `is DisplayType.none`, `units is Units.px`
  depends on that.)"""
  ix = ctx.ix
  sp = ix.cls("ttconv.style_properties:StyleProperties")
  ctx.unit(sp.module)
  n_props = 0
  n = 0
  for name, ci in sorted(sp.nested.items()):
    v = ci.methods.get("validate") or mi_dummy(ci)
    mi = ci.methods.get("make_initial_value")
    if mi is None or ("validate" not in ci.methods and "validate" not in ci.assigns):
      continue
    try:
      init = MiniEval(ix).call(mi, [])
    except (NotConst, Raised):
      continue
    probes = []
    if isinstance(init, EnumMember):
      eci = ix.classes.get(init.cls)
      if eci is None:
        continue
      tbl = MiniEval(ix)._enum_table(eci, mi)
      probes = [m.value for m in tbl.values() if isinstance(m.value, (str, int)) and not isinstance(m.value, bool)]
      # ... and members of *other* enumerations of the module whose value equals one of this enumeration's (SpecialValues.none ~ DisplayType.none)
      own_vals = {m.value for m in tbl.values() if isinstance(m.value, str)}
      for oc in ix.classes.values():
        if oc.module is eci.module and oc is not eci and ix.is_enum(oc):
          try:
            for om in MiniEval(ix)._enum_table(oc, mi).values():
              if isinstance(om.value, str) and om.value in own_vals:
                probes.append(om)
          except NotConst:
            pass
      valid = [init]
    elif isinstance(init, bool):
      probes = [0, 1]
      valid = [True, False]
    else:
      continue
    n_props += 1
    for ok_ in valid:
      try:
        r = call_validate(ix, ci, ok_)
      except Raised:
        r = "raises"
      except NotConst as ex:
        ctx.undecide(rule, f"{v.qualname} on {ok_!r}: not in the interpreted subset ({ex})")
        continue
      ctx.check(r is True, rule, f"{v.qualname}|accepts {ok_!r}", ctx.where(v.module, v.node), "interpreted: True",
                f"interpreted on the valid value {ok_!r}, validate() gives {r!r}")
      n += 1
    for p in probes:
      key = f"{v.qualname}|rejects the raw value {p!r}"
      try:
        r = call_validate(ix, ci, p)
      except Raised:
        r = False
      except NotConst as ex:
        ctx.undecide(rule, f"{v.qualname} on {p!r}: not in the interpreted subset ({ex})")
        continue
      ctx.check(not MiniEval.truth(r), rule, key, ctx.where(v.module, v.node), "interpreted: rejected",
                f"interpreted on {p!r} (not an instance of the property's type, only equal to the value of one), validate() accepts it: the raw value is stored in the model, "
                "and every later test by identity (`is DisplayType.none`, `is Units.px`, `is True`) silently fails on it")
      n += 1
  ctx.floor(rule, "style properties with an enumeration or bool type", n_props, 15)
  # LengthType's own check
  lt = ix.cls("ttconv.style_properties:LengthType")
  post = lt.methods.get("__post_init__")
  if post is None:
    ctx.bad(rule, "ttconv.style_properties:LengthType|checks its fields", ctx.where(lt.module, lt.node), "LengthType no longer checks its fields on construction")
    return n
  units = MiniEval(ix)._enum_table(lt.nested["Units"], post)
  cases = [({"value": 1, "units": units["px"]}, True), ({"value": Fraction(1, 2), "units": units["pct"]}, True)]
  cases += [({"value": 1, "units": m.value}, False) for m in units.values() if isinstance(m.value, str)]
  cases += [({"value": "1", "units": units["px"]}, False), ({"value": None, "units": units["px"]}, False), ({"value": 1, "units": None}, False)]
  for fields, ok_ in cases:
    rec = {"__record__": "LengthType", **fields}
    shown = f"LengthType({fields['value']!r}, {fields['units']!r})"
    try:
      MiniEval(ix).call(post, [rec])
      got = True
    except Raised:
      got = False
    except NotConst as ex:
      ctx.undecide(rule, f"{post.qualname} on {shown}: not in the interpreted subset ({ex})")
      continue
    ctx.check(got == ok_, rule, f"{post.qualname}|{shown} is {'accepted' if ok_ else 'rejected'}", ctx.where(post.module, post.node), "interpreted",
              f"interpreted, {shown} is {'accepted' if got else 'rejected'}: " + ("a raw unit symbol / non-number is stored in a length; `units is LengthType.Units.px` and the arithmetic of the "
              "snapshot then fall through and the length reaches the output in its source units" if got else "a valid length can no longer be built"))
    n += 1
  return n


def check_style_chains(ctx, rule="FIN-chain"):
  """Chained referential styling (<style style="a b">) flattened by StylingElement.ParsingContext.merge_chained_styles, interpreted
  on small style graphs: own values win over referenced ones, later references win over earlier ones, references of references are
  followed, a style reached along two paths (a diamond) is merged on both, and a loop of references ends."""
  ix = ctx.ix
  cls = ix.cls("ttconv.imsc.elements:StylingElement.ParsingContext")
  f = cls.methods.get("merge_chained_styles")
  if f is None:
    raise_anchor(ix, "ttconv.imsc.elements:StylingElement.ParsingContext.merge_chained_styles")
  ctx.unit(f.module)

  def S(refs, **styles):
    return {"__record__": "StyleElement", "style_refs": list(refs), "styles": dict(styles)}
  scenarios = [
    ("later references win over earlier ones", {"s": S(["a", "b"]), "a": S([], color="A", size="SA"), "b": S([], color="B")}, "s", {"s": {"color": "B", "size": "SA"}}),
    ("own values win over referenced ones", {"s": S(["a"], color="S"), "a": S([], color="A", size="SA")}, "s", {"s": {"color": "S", "size": "SA"}}),
    ("references of references are followed", {"s": S(["a"]), "a": S(["c"], color="A"), "c": S([], color="C", font="FC")}, "s", {"s": {"color": "A", "font": "FC"}, "a": {"color": "A", "font": "FC"}}),
    ("three references, the last one wins", {"s": S(["a", "b", "c"]), "a": S([], color="A"), "b": S([], color="B", size="SB"), "c": S([], color="C")}, "s", {"s": {"color": "C", "size": "SB"}}),
    ("a style reached along two paths is merged on both", {"top": S(["left", "right"]), "left": S(["base"]), "right": S(["base"], size="SR"), "base": S([], color="X")}, "top",
     {"top": {"color": "X", "size": "SR"}, "left": {"color": "X"}, "right": {"color": "X", "size": "SR"}}),
    ("an unknown reference is skipped", {"s": S(["nope", "a"]), "a": S([], color="A")}, "s", {"s": {"color": "A"}}),
    ("a loop of references ends", {"s1": S(["s2"], color="1"), "s2": S(["s3"], size="2"), "s3": S(["s1"], font="3")}, "s1", {"s1": {"color": "1", "size": "2", "font": "3"}}),
  ]
  n = 0
  for what, graph, start, want in scenarios:
    key = f"{f.qualname}|{what}"
    for k_, v_ in graph.items():
      v_["id"] = k_
    this = {"__record__": "ParsingContext", "__class__": cls, "style_elements": graph}
    try:
      MiniEval(ix, opaque_calls={"LOGGER": None}).call(f, [this, graph[start]])
    except Raised:
      ctx.bad(rule, key, ctx.where(f.module, f.node), f"interpreted on the style graph {_show(graph)}, merge_chained_styles raises (or does not end)")
      n += 1
      continue
    except NotConst as ex:
      ctx.undecide(rule, f"{f.qualname} ({what}): not in the interpreted subset ({ex})")
      continue
    got = {k: graph[k]["styles"] for k in want}
    ctx.check(got == want, rule, key, ctx.where(f.module, f.node), "interpreted on a sample style graph",
              f"interpreted on the style graph {_show_in(scenarios, what)}, merging `{start}` leaves {got} instead of {want}: {what} (TTML2 8.4.4.2 / 10.4.4.2)")
    n += 1
  return n


def _show(graph):
  return {k: (v["style_refs"], v["styles"]) for k, v in graph.items()}


def _show_in(scenarios, what):
  for w, graph, _s, _want in scenarios:
    if w == what:
      return {k: "..." for k in graph}
  return {}


RUBY_CHILDREN = {
  "Ruby": ([["Rb", "Rt"], ["Rb", "Rp", "Rt", "Rp"], ["Rbc", "Rtc"], ["Rbc", "Rtc", "Rtc"]],
           [[], ["Rb"], ["Rt", "Rb"], ["Rb", "Rt", "Rt"], ["Rbc"], ["Rb", "Rtc"], ["Rbc", "Rt"], ["Rb", "Rp", "Rt"], ["Rb", "Rt", "Rp"], ["Rbc", "Rtc", "Rtc", "Rtc"], ["Rtc", "Rbc"], ["Span", "Rt"]]),
  "Rtc": ([["Rt"], ["Rt", "Rt"], ["Rt", "Rt", "Rt"], ["Rp", "Rt", "Rp"], ["Rp", "Rt", "Rt", "Rp"]],
          [["Rp", "Rt"], ["Rt", "Rp"], ["Rp", "Rp"], ["Rb"], ["Rp", "Rb", "Rp"], ["Rt", "Rp", "Rt"], ["Rp"], ["Rp", "Rt", "Rp", "Rp"], ["Span"]]),
}


def check_ruby_children(ctx, rule="FIN-rubykids"):
  """The child sequences Ruby.push_children / Rtc.push_children accept, interpreted on sample sequences: exactly the TTML2 ruby
  content models (ruby: rb rt | rb rp rt rp | rbc rtc | rbc rtc rtc; rtc: rt+ | rp rt+ rp)."""
  ix = ctx.ix
  n = 0
  for cname, (accept, reject) in RUBY_CHILDREN.items():
    cls = ix.cls(f"ttconv.model:{cname}")
    f = cls.methods.get("push_children")
    if f is None:
      raise_anchor(ix, f"ttconv.model:{cname}.push_children")
    ctx.unit(f.module)
    for seq, ok_ in [(s_, True) for s_ in accept] + [(s_, False) for s_ in reject]:
      kids = [Node(k_, f"{k_.lower()}{i_}", ()) for i_, k_ in enumerate(seq)]
      parent_ = Node(cname, cname.lower(), [])
      key = f"{f.qualname}|[{', '.join(seq)}] is {'accepted' if ok_ else 'rejected'}"
      try:
        MiniEval(ix).call(f, [parent_, kids])
        got = [c_.kind for c_ in parent_.children] == seq
        if not got and not parent_.children:
          got = None     # returned without raising and without attaching
      except Raised:
        got = False
      except NotConst as ex:
        ctx.undecide(rule, f"{f.qualname} on [{', '.join(seq)}]: not in the interpreted subset ({ex})")
        continue
      n += 1
      if ok_:
        ctx.check(got is True, rule, key, ctx.where(f.module, f.node), "interpreted: attached in order",
                  f"interpreted, {cname}.push_children([{', '.join(seq)}]) {'raises' if got is False else 'does not attach the children in order'}: a child sequence of the TTML2 ruby content model is refused "
                  "(the reader logs the error and the ruby text is lost)")
      else:
        ctx.check(got is False, rule, key, ctx.where(f.module, f.node), "interpreted: raises",
                  f"interpreted, {cname}.push_children([{', '.join(seq)}]) is accepted: a child sequence outside the TTML2 ruby content model enters the model")
  return n


def _tree(spec, parent=None):
  """('Div', 'd1', [children...]) -> Node with parent links"""
  kind, name, kids = spec
  n = Node(kind, name, [])
  n.parent = parent
  for k in kids:
    n.children.append(_tree(k, n))
  return n


def check_paragraph_merge(ctx, rule="FIN-merge"):
  """ParagraphsMergingISDFilter.process interpreted on sample snapshots: afterwards every region holds at most one paragraph, and
  that paragraph carries the spans of all the region's paragraphs - at any nesting depth of divs - in document order, with exactly
  one line break between the content of consecutive paragraphs; a region with a single paragraph keeps its content."""
  ix = ctx.ix
  f = ix.func("ttconv.filters.isd.merge_paragraphs:ParagraphsMergingISDFilter.process")
  ctx.unit(f.module)
  S = lambda nm: ("Span", nm, [])
  samples = {
    "divs nested at several depths": [("Body", "b", [("Div", "d1", [("P", "p1", [S("s1"), S("s2")]), ("Div", "d2", [("P", "p2", [S("s3")])]), ("P", "p3", [S("s4")])]), ("Div", "d3", [("P", "p4", [S("s5")])])])],
    "one div holding one div with two paragraphs": [("Body", "b", [("Div", "d1", [("Div", "d2", [("P", "p1", [S("s1")]), ("P", "p2", [S("s2")])])])])],
    "a single paragraph": [("Body", "b", [("Div", "d1", [("P", "p1", [S("s1"), S("s2")])])])],
    "a nested div between two paragraphs": [("Body", "b", [("Div", "d1", [("P", "p1", [S("s1")]), ("Div", "d2", [("P", "p2", [S("s2")])]), ("P", "p3", [S("s3")])])])],
    "two regions": [("Body", "b1", [("Div", "d1", [("P", "p1", [S("s1")]), ("P", "p2", [S("s2")])])]), ("Body", "b2", [("Div", "d2", [("P", "p3", [S("s3")])]), ("Div", "d3", [("P", "p4", [S("s4")])])])],
    "an empty body": [("Body", "b", [])],
  }
  n = 0
  for what, bodies in samples.items():
    regions = []
    want = []
    for i, b in enumerate(bodies):
      r = Node("Region", f"r{i + 1}", [])
      body = _tree(b, r)
      r.children.append(body)
      regions.append(r)
      ps = [x for x in body.walk() if x.kind == "P"]
      seq = []
      for j, p in enumerate(ps):
        seq += [c.name for c in p.children]
        if j < len(ps) - 1:
          seq.append("BR")
      want.append(seq)
    isd = Node("ISD", "isd", [], regions=regions)
    key = f"{f.qualname}|{what}"
    this = {"__record__": f.cls.name, "__class__": f.cls}
    try:
      MiniEval(ix, node_methods={"iter_regions": lambda n_: list(n_.fields["regions"])}, opaque_calls={"LOGGER": None}).call(f, [this, isd])
    except Raised:
      ctx.bad(rule, key, ctx.where(f.module, f.node), f"interpreted on a snapshot with {what}, the paragraph merger raises")
      n += 1
      continue
    except NotConst as ex:
      ctx.undecide(rule, f"{f.qualname} ({what}): not in the interpreted subset ({ex})")
      continue
    got, counts = [], []
    for r in regions:
      ps = [x for x in r.walk() if x.kind == "P"]
      counts.append(len(ps))
      seq = []
      for x in r.walk():
        if x.kind == "Span" and x.parent is not None and x.parent.kind == "P":
          seq.append(x.name)
        elif x.kind == "Br":
          seq.append("BR")
      got.append(seq)
    ok = got == want and all(c <= 1 or not w for c, w in zip(counts, want)) and all(c <= 1 for c in counts)
    ctx.check(ok, rule, key, ctx.where(f.module, f.node), "interpreted: one paragraph per region, content in document order, one break between paragraphs",
              f"interpreted on a snapshot with {what}, the merger leaves {counts} paragraph(s) per region holding {got} instead of one paragraph per region holding {want}: "
              "paragraphs that are shown at the same time stay separate (the cue writers emit one cue per paragraph: overlapping cues), or text is dropped or reordered")
    n += 1
  return n


def check_lwsp_block(ctx, rule="FIN-lwsp"):
  """The white-space step of ISD._process_element - the statements that build the run of text of a paragraph, process linear
  white space and prune what became empty - interpreted on sample paragraphs (xml:space=default): runs of white space collapse
  to one space, white space at the start of the paragraph / after a line break and at the end / before a line break goes, and a
  text node left empty - or empty in the source - disappears together with every span it leaves without children."""
  ix = ctx.ix
  f = ix.func("ttconv.isd:ISD._process_element")
  ctx.unit(f.module)
  from ..core import own_nodes
  guards = [n for n in own_nodes(f.node) if isinstance(n, ast.If) and any(isinstance(s_, ast.Expr) and isinstance(s_.value, ast.Call) and unparse(s_.value.func).endswith("_construct_text_list") for s_ in n.body)]
  if len(guards) != 1:
    ctx.undecide(rule, f"{f.qualname}: expected one guarded white-space step, found {len(guards)}")
    return 0
  g = guards[0]
  # the name that holds the snapshot element in that block: the first argument of _construct_text_list
  call = next(c for s_ in g.body for c in ast.walk(s_) if isinstance(c, ast.Call) and unparse(c.func).endswith("_construct_text_list"))
  if not (call.args and isinstance(call.args[0], ast.Name)):
    ctx.undecide(rule, f"{f.qualname}: the element handed to _construct_text_list is not a local")
    return 0
  elem_name = call.args[0].id
  ws = MiniEval(ix)._enum_table(ix.cls("ttconv.model:WhiteSpaceHandling"), f)
  T = lambda nm, tx: ("Text", nm, tx)

  def build(spec, parent=None):
    kind, name, rest = spec
    preserve = kind.endswith("+")       # "Span+": xml:space=preserve on that span
    kind = kind.rstrip("+")
    n = Node(kind, name, [], space=ws["PRESERVE"] if preserve or (parent is not None and parent.kind == "Span" and kind == "Text" and parent.fields.get("space") is ws["PRESERVE"]) else ws["DEFAULT"])
    n.parent = parent
    if kind == "Text":
      n.fields["text"] = rest
    else:
      for k in rest:
        n.children.append(build(k, n))
    return n

  def show(n):
    if n.kind == "Text":
      return repr(n.fields.get("text"))
    if n.kind == "Br":
      return "br"
    return f"{n.kind.lower()}[{', '.join(show(c) for c in n.children)}]"
  samples = [
    ("a trailing span of white space", ("P", "p", [("Span", "s1", [T("t1", "hello")]), ("Span", "s2", [T("t2", " ")])]), "p[span['hello']]"),
    ("trailing white space after a span", ("P", "p", [("Span", "s1", [T("t1", "bonjour")]), T("t2", " ")]), "p[span['bonjour']]"),
    ("runs of white space", ("P", "p", [T("t1", "  a \t b\n ")]), "p['a b']"),
    ("a text node that is empty in the source", ("P", "p", [("Span", "s1", [T("t1", "")]), T("t2", "x")]), "p['x']"),
    ("white space around a line break", ("P", "p", [T("t1", "a "), ("Br", "br", []), T("t2", " b")]), "p['a', br, 'b']"),
    ("a single space between spans", ("P", "p", [("Span", "s1", [T("t1", "a")]), T("t2", " "), ("Span", "s2", [T("t3", "b")])]), "p[span['a'], ' ', span['b']]"),
    ("nested spans emptied from the inside", ("P", "p", [T("t0", "x"), ("Span", "s1", [("Span", "s2", [T("t1", "  ")])])]), "p['x']"),
    ("nothing to do", ("P", "p", [("Span", "s1", [T("t1", "a b")])]), "p[span['a b']]"),
    ("only a span with an empty text node", ("P", "p", [("Span", "s1", [T("t1", "")])]), "p[]"),
    ("only white space", ("P", "p", [("Span", "s1", [T("t1", "  ")]), T("t2", "\n")]), "p[]"),
    ("a preserved span ending in a tab before default white space", ("P", "p", [("Span+", "s1", [T("t1", "a\t")]), ("Span", "s2", [T("t2", " b")])]), "p[span['a\\t'], span['b']]"),
    ("a preserved span ending in a line feed before default white space", ("P", "p", [("Span+", "s1", [T("t1", "a\n")]), ("Span", "s2", [T("t2", " b")])]), "p[span['a\\n'], span['b']]"),
    ("a preserved span ending in a carriage return before default white space", ("P", "p", [("Span+", "s1", [T("t1", "a\r")]), ("Span", "s2", [T("t2", "  b")])]), "p[span['a\\r'], span['b']]"),
    ("preserved white space is kept", ("P", "p", [("Span+", "s1", [T("t1", " a  b ")]), ("Span", "s2", [T("t2", "c")])]), "p[span[' a  b '], span['c']]"),
  ]
  methods = {
    "get_text": lambda n_: n_.fields.get("text"),
    "set_text": lambda n_, t_: n_.fields.__setitem__("text", t_),
    "get_space": lambda n_: n_.fields.get("space"),
    "__len__": lambda n_: len(n_.children),
  }
  n = 0
  for what, spec, want in samples:
    root = build(spec)
    key = f"{f.qualname}|white-space step: {what}"
    me = MiniEval(ix, node_methods=methods)
    try:
      me.block(g.body, {elem_name: root, "isd_element": root, "element": root}, f, 0)
    except Raised:
      ctx.bad(rule, key, ctx.where(f.module, g), f"interpreted on {show(build(spec))}, the white-space step raises")
      n += 1
      continue
    except NotConst as ex:
      ctx.undecide(rule, f"{f.qualname} white-space step ({what}): not in the interpreted subset ({ex})")
      continue
    except Exception as ex:   # pylint: disable=broad-except
      if type(ex).__name__ == "_Return":
        pass
      else:
        raise
    got = show(root)
    if want is None:
      continue
    ctx.check(got == want, rule, key, ctx.where(f.module, g), f"interpreted: {got}",
              f"interpreted on {show(build(spec))} (xml:space=default), the white-space step leaves {got} instead of {want}")
    n += 1
  return n


TOKEN_PROBES = [
  ("a &amp; b", [("S", "a & b")]),
  ("&lt;i&gt;", [("S", "<i>")]),
  ("&#39;x&#x3c;&#9834;", [("S", "'x<♪")]),
  ("&nbsp;&lrm;&rlm;", [("S", "\xa0‎‏")]),
  ("AT&T", [("S", "AT&T")]),
  ("a & b", [("S", "a & b")]),
  ("R&D;", [("S", "R&D;")]),
  ("5 &gt; 3 &amp;&amp; 2 &lt; 4", [("S", "5 > 3 && 2 < 4")]),
  ("<b>x</b>", [("B", "b", [], None), ("S", "x"), ("E", "b")]),
  ("<c.red.big>y</c>", [("B", "c", ["red", "big"], None), ("S", "y"), ("E", "c")]),
  ("<v Bob>hi</v>", [("B", "v", [], "Bob"), ("S", "hi"), ("E", "v")]),
  ("<v.loud R&amp;D>x</v>", [("B", "v", ["loud"], "R&D"), ("S", "x"), ("E", "v")]),
  ("a<00:01:02.000>b", [("S", "a"), ("T", "00:01:02.000"), ("S", "b")]),
  ("<i>a<b>b</b></i>", [("B", "i", [], None), ("S", "a"), ("B", "b", [], None), ("S", "b"), ("E", "b"), ("E", "i")]),
  ("x &#39;", [("S", "x '")]),
]


def check_cue_tokens(ctx, rule="FIN-tokens"):
  """The WebVTT cue text tokenizer interpreted on probe texts: character references (named, decimal, hexadecimal, &nbsp; &lrm;
  &rlm;) are decoded, an ampersand that starts no reference stands for itself, tags give start / end / timestamp tokens with their
  classes and annotation (WebVTT 6.4, cue text tokenizer)."""
  ix = ctx.ix
  f = ix.func("ttconv.vtt.tokenizer:CueTextTokenizer")
  ctx.unit(f.module)
  n = 0
  for text, want in TOKEN_PROBES:
    key = f"{f.qualname}|tokens of {text!a}"
    me = MiniEval(ix, opaque_calls={"LOGGER": None})
    me.init_modules = {"ttconv.vtt.tokenizer"}
    try:
      toks = me.call(f, [text])
    except Raised:
      ctx.bad(rule, key, ctx.where(f.module, f.node), f"interpreted on {text!a}, the tokenizer raises")
      n += 1
      continue
    except NotConst as ex:
      ctx.undecide(rule, f"{f.qualname} on {text!a}: not in the interpreted subset ({ex})")
      continue
    got = []
    for t in toks or []:
      k = t.get("__record__") if isinstance(t, dict) else None
      if k == "StringToken":
        if got and got[-1][0] == "S":
          got[-1] = ("S", got[-1][1] + t.get("value", ""))
        elif t.get("value", "") != "":
          got.append(("S", t.get("value")))
      elif k == "StartTagToken":
        got.append(("B", t.get("tag"), list(t.get("classes") or []), t.get("annotation") or None))
      elif k == "EndTagToken":
        got.append(("E", t.get("tag")))
      elif k == "TimestampTagToken":
        got.append(("T", t.get("timestamp")))
      else:
        got.append(("?", repr(t)[:40]))
    ctx.check(got == want, rule, key, ctx.where(f.module, f.node), "interpreted: the tokens of the WebVTT cue text tokenizer",
              f"interpreted on {text!a}, the tokenizer yields {ascii(got)} instead of {ascii(want)} (S text, B start tag + classes + annotation, E end tag, T timestamp): "
              "text the writer escaped, or a tag it wrote, is read back differently")
    n += 1
  return n



def check_timing_setters(ctx, rule="ID-time"):
  """ContentElement.set_begin / set_end store the offset they are given and get_begin / get_end return it: exactly (a rational with
  a large denominator is not rounded), with its value for 0 and None kept apart."""
  ix = ctx.ix
  cls = ix.cls("ttconv.model:ContentElement")
  probes = [Fraction(25000001, 10000000), Fraction(0), None, Fraction(1, 3), Fraction(5000000004, 1000000000), Fraction(7, 1), Fraction(123456789, 1001)]
  n = 0
  for setter, getter in (("set_begin", "get_begin"), ("set_end", "get_end")):
    fs, fg = cls.methods.get(setter), cls.methods.get(getter)
    if fs is None or fg is None:
      raise_anchor(ix, f"ttconv.model:ContentElement.{setter}")
    ctx.unit(fs.module)
    for v in probes:
      key = f"{fs.qualname}|{getter}() returns the {v!r} given to {setter}()"
      rec = {"__record__": "ContentElement", "__class__": cls}
      try:
        me = MiniEval(ix)
        me.call(fs, [rec, v])
        got = me.call(fg, [rec])
      except Raised:
        ctx.bad(rule, key, ctx.where(fs.module, fs.node), f"interpreted, {setter}({v!r}) raises")
        n += 1
        continue
      except NotConst as ex:
        ctx.undecide(rule, f"{fs.qualname} on {v!r}: not in the interpreted subset ({ex})")
        continue
      ok = (got is None and v is None) or (got is not None and v is not None and got == v and isinstance(got, Fraction))
      ctx.check(ok, rule, key, ctx.where(fs.module, fs.node), "interpreted: stored and returned as given",
                f"interpreted, {setter}({v!r}) followed by {getter}() gives {got!r}: the offset a reader computed exactly is altered in the model "
                "(a time that is not on the rounding grid moves; the exact instant is no longer a significant time)")
      n += 1
  return n


def check_payload_eol(ctx, rule="FIN-eol"):
  """SrtParagraph / VttCue: after append_text() calls and normalize_eol(), the payload has no empty line (no LF LF), and no line
  break at its start or end - whatever way the line breaks arrived (one per call, or several inside one text node)."""
  import re as _re
  ix = ctx.ix
  n = 0
  seqs = [["a", "\n", "\n", "b"], ["a\n\nb"], ["\n", "a", "\n"], ["a", "\n\n\n", "b\n"], ["x"], ["first\n", "\nsecond"], ["a\n", "\n", "\nb"], ["a", "\n", "b", "\n", "c"]]
  for q in ("ttconv.srt.paragraph:SrtParagraph", "ttconv.vtt.cue:VttCue"):
    cls = ix.cls(q)
    ap, ne = cls.methods.get("append_text"), cls.methods.get("normalize_eol")
    if ap is None or ne is None:
      raise_anchor(ix, f"{q}.append_text / normalize_eol")
    ctx.unit(cls.module)
    for seq in seqs:
      key = f"{q}|payload after appending {seq!a}"
      rec = {"__record__": cls.name, "__class__": cls, "_text": ""}
      try:
        me = MiniEval(ix)
        for t in seq:
          me.call(ap, [rec, t])
        me.call(ne, [rec])
      except Raised:
        ctx.bad(rule, key, ctx.where(cls.module, ne.node), f"interpreted, appending {seq!a} and normalising raises")
        n += 1
        continue
      except NotConst as ex:
        ctx.undecide(rule, f"{q} on {seq!a}: not in the interpreted subset ({ex})")
        continue
      got = rec.get("_text")
      want = _re.sub(r"\n{2,}", "\n", "".join(seq)).strip("\n\r")
      ctx.check(got == want, rule, key, ctx.where(cls.module, ne.node), f"interpreted: {got!a}",
                f"interpreted, append_text() of {seq!a} followed by normalize_eol() leaves the payload {got!a} instead of {want!a}: an empty line inside a payload ends the cue "
                "(the rest is read as a new, malformed cue), and line breaks at its ends add blank lines between cues")
      n += 1
  return n



def call_validate(ix, prop, value):
  """StyleProperties.<prop>.validate(value), interpreted: the method, or - when `validate` is a class attribute built by a
  factory (`validate = _instance_validator(T)`) - the function the factory returns."""
  v = prop.methods.get("validate")
  me = MiniEval(ix)
  if v is not None:
    return me.call(v, [value])
  expr = prop.assigns.get("validate")
  if expr is None:
    for c in ix.mro(prop)[1:]:
      if "validate" in c.methods:
        return me.call(c.methods["validate"], [value])
    raise NotConst("no validate()")
  ctxf = next((g for g in ix.funcs_in(prop.module.name) if g.cls is None and getattr(g, "outer_func", None) is None), None)
  if ctxf is None:
    raise NotConst("no module-level context")
  fn = me.ev(expr, {}, ctxf, 0)
  if isinstance(fn, tuple) and fn and fn[0] == "closure":
    return me.call(fn[1], [value], None, {k: v_ for k, v_ in fn[2].items() if k != "__self__"}, 1)
  raise NotConst("validate is not a function")


def check_time_expression_probes(ctx, rule="FIN-timeparse"):
  """imsc.utils.parse_time_expression interpreted on a grid of TTML time expressions: every frame label 0 .. ceil(rate)-1 that is
  below the frame rate is accepted and means s + ff / rate (the last label of a second included, also at 30000/1001), the label
  ceil(rate) is refused; offsets in f / t / ms / s / m / h and clock times with a fraction mean what TTML2 10.3.1 says."""
  import math
  from fractions import Fraction as F
  ix = ctx.ix
  f = ix.func("ttconv.imsc.utils:parse_time_expression")
  ctx.unit(f.module)
  probes = []
  for rate in (F(24), F(25), F(30), F(30000, 1001), F(60), F(24000, 1001)):
    top = math.ceil(rate)
    for ff in sorted({0, 1, top - 2, top - 1}):
      if ff < rate:
        probes.append((None, rate, f"01:02:03:{ff:02d}", F(3723) + F(ff) / rate))
    probes.append((None, rate, f"00:00:01:{top:02d}", "error"))
    probes.append((None, rate, "90f", F(90) / rate))
    probes.append((None, rate, "0f", F(0)))
  for tick in (1, 10, 10000000):
    probes.append((tick, None, "25t", F(25, tick)))
    probes.append((tick, F(25), "0t", F(0)))
  probes += [(None, None, "1.5s", F(3, 2)), (None, None, "250ms", F(1, 4)), (None, None, "2m", F(120)), (None, None, "1h", F(3600)), (None, None, "0.5h", F(1800)),
             (None, None, "01:02:03.5", F(3723) + F(1, 2)), (None, None, "100:00:00", F(360000)), (None, F(25), "00:00:10.040", F(10) + F(1, 25)),
             (None, F(25), "abc", "error"), (None, None, "", "error")]
  bad, n = [], 0
  for tick, rate, expr, want in probes:
    try:
      got = MiniEval(ix).call(f, [tick, rate, expr])
    except Raised:
      got = "error"
    except NotConst as ex:
      ctx.undecide(rule, f"{f.qualname}('{expr}'): not in the interpreted subset ({ex})")
      continue
    n += 1
    if got != want:
      bad.append(f"'{expr}' at frame rate {rate}, tick rate {tick}: {got}, TTML gives {want}")
  ctx.check(not bad, rule, f"{f.qualname}|time expressions on the probe grid", ctx.where(f.module, f.node), f"{n} probes interpreted",
            "interpreted, parse_time_expression gives " + "; ".join(bad[:4]) + (f" (+{len(bad) - 4} more)" if len(bad) > 4 else ""))
  return n


_ERR = "error"
DECODER_PROBES = {
  # the documented domains (doc/*.md, README): max_row_count is "MNR" or a positive integer; program_start_tc is "TCP" or a SMPTE
  # time code; safe_area is an integer percentage 0..30; boolean options take JSON booleans only
  "ttconv.stl.config:_decode_max_row_count": [(None, None), ("MNR", "MNR"), ("mnr", "MNR"), (11, 11), (1, 1), (0, _ERR), (-3, _ERR), ("11", _ERR), ("007", _ERR), ("0", _ERR), ("x", _ERR),
                                              ("", _ERR), (2.5, _ERR)],
  "ttconv.stl.config:_decode_start_tc": [(None, None), ("TCP", "TCP"), ("tcp", "TCP"), ("10:00:00:00", "10:00:00:00"), ("10:00:00;00", "10:00:00;00"), ("1", _ERR), ("", _ERR),
                                         ("10:00:00", _ERR), ("10:00:00:00 ", _ERR)],
  "ttconv.filters.doc.lcd:_safe_area_decoder": [(0, 0), (10, 10), (30, 30), (31, _ERR), (-1, _ERR), (95, _ERR)],
  "ttconv.config:decode_bool": [(True, True), (False, False), ("true", _ERR), ("false", _ERR), (0, _ERR), (1, _ERR), (None, _ERR), ("", _ERR)],
}


def check_config_decoders(ctx, only=None, rule="FIN-decoder"):
  """The decoders of the configuration fields interpreted on raw JSON values: each accepts exactly its documented domain and
  returns the documented value; everything else is refused (tt convert reports the configuration error and writes nothing)."""
  ix = ctx.ix
  n = 0
  for q, rows in DECODER_PROBES.items():
    if only is not None and q not in only:
      continue
    f = ix.func(q)
    ctx.unit(f.module)
    bad = []
    k = 0
    for raw, want in rows:
      try:
        got = MiniEval(ix).call(f, [raw])
      except Raised:
        got = _ERR
      except NotConst as ex:
        ctx.undecide(rule, f"{f.qualname}({raw!r}): not in the interpreted subset ({ex})")
        continue
      k += 1
      if got != want or (want is not _ERR and type(got) is not type(want)):
        bad.append(f"{raw!r} gives {got!r} instead of {'a configuration error' if want is _ERR else repr(want)}")
    n += k
    ctx.check(not bad, rule, f"{f.qualname}|accepts exactly its documented domain", ctx.where(f.module, f.node), f"{k} raw values interpreted",
              f"interpreted, {f.short}: " + "; ".join(bad[:4]))
  return n
