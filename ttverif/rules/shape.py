"""Assorted structural rules (each a genuine necessary condition of the clause named in its
docstring), used by several property checkers."""
from __future__ import annotations

import ast
import itertools
import typing
from fractions import Fraction

from ..cfg import CFG
from ..consteval import ConstEval, NotConst
from ..core import AnalysisError, ClassInfo, FuncInfo, Index, own_nodes, parent, short, unparse
from .isdrules import substitute, names_in


# ---------------------------------------------------------------------------------------
# FIN-hull: the content interval of a cached single-region document is the hull of its content
# ---------------------------------------------------------------------------------------

def check_content_interval_hull(ctx, rule="FIN-hull"):
  """The content interval that compute_sig_times accumulates is the hull of the content intervals it
  is fed: begin = the smallest begin, end = unbounded (None) as soon as one content end is unbounded,
  else the largest end.  The statements that update content_interval are folded, from the declared
  initial state, over every sequence of one and two (begin, end) pairs of a small grid."""
  from ..consteval import FuncEval, Raised, _CallingConstEval
  from ..core import clone, parent as _par
  ix = ctx.ix
  f = ix.func("ttconv.isd:ISD.significant_times.<locals>.compute_sig_times")
  sig = ix.func("ttconv.isd:ISD.significant_times")
  ctx.unit(f.module)
  ce = ConstEval(ix, symbolic_ok=False)
  ups = [st for st in own_nodes(f.node) if isinstance(st, (ast.Assign, ast.AugAssign)) and any(isinstance(t, ast.Subscript) and unparse(t.value) == "content_interval"
                                                                                               for t in (st.targets if isinstance(st, ast.Assign) else [st.target]))]
  if len(ups) < 2:
    raise AnalysisError("compute_sig_times: content_interval[0] / [1] updates not found")
  # innermost statement list that holds every update
  def chain(n):
    out = []
    while n is not f.node:
      n = _par(n)
      out.append(n)
    return out
  common_anc = [a for a in chain(ups[0]) if all(any(a is x for x in chain(u)) for u in ups[1:])][0]
  block = None
  for fld in ("body", "orelse"):
    lst = getattr(common_anc, fld, None)
    if isinstance(lst, list) and all(any(any(u is y for y in ast.walk(x)) for x in lst) for u in ups):
      block = lst
  if block is None:
    raise AnalysisError("compute_sig_times: the statements updating content_interval are not in one block")
  pairs = __import__("ttverif.rules.isdrules", fromlist=["interval_pairs"]).interval_pairs(f)
  own = [p for p in pairs if "anim" not in p[0]]
  if not own:
    raise AnalysisError("compute_sig_times: element interval variables not found")
  bv, ev = own[0][0], own[0][1]
  inits = [st for st in own_nodes(sig.node) if isinstance(st, ast.Assign) and unparse(st.targets[0]) == "content_interval" and isinstance(st.value, (ast.List, ast.Tuple)) and len(st.value.elts) == 2]
  if len(inits) != 1:
    raise AnalysisError("significant_times: the initial value of content_interval was not found")
  init = [ce.try_ev(sig.module, e, default="?") for e in inits[0].value.elts]

  class Sub(ast.NodeTransformer):
    def visit_Subscript(self, n):
      if unparse(n.value) == "content_interval":
        i = ce.try_ev(f.module, n.slice)
        if i in (0, 1):
          return ast.copy_location(ast.Name(id=f"__ci{i}", ctx=n.ctx), n)
      return self.generic_visit(n)
  stmts = [ast.fix_missing_locations(Sub().visit(clone(st))) for st in block]
  fe = FuncEval(ix)
  F = Fraction
  grid = [(F(0), None), (F(3), F(6)), (F(1), F(2)), (F(5), F(9))]
  wrong, n = [], 0
  for seq in [(a,) for a in grid] + [(a, b) for a in grid for b in grid]:
    env = {"__ci0": init[0], "__ci1": init[1]}
    try:
      for (b_, e_) in seq:
        env[bv], env[ev] = b_, e_
        fe._block(_CallingConstEval(ix, fe, f, 0, None), f, stmts, env)
    except (NotConst, Raised, TypeError) as ex:
      raise AnalysisError(f"the content_interval updates leave the evaluable subset: {ex}")
    n += 1
    want = (min(b_ for b_, _ in seq), None if any(e_ is None for _, e_ in seq) else max(e_ for _, e_ in seq))
    got = (env["__ci0"], env["__ci1"])
    if got != want:
      wrong.append((seq, got, want))
  ctx.check(not wrong, rule, f"{f.qualname}|content interval = hull of the content intervals", ctx.where(f.module, ups[-1]),
            f"from the initial state {init}: begin = min, end = max with None (unbounded) absorbing, on {n} sequences",
            "the cached content interval is not the hull of the content intervals: "
            + "; ".join(f"content {[(str(b_), str(e_)) for b_, e_ in sq]}: interval {tuple(str(x) for x in g)}, hull {tuple(str(x) for x in w)}" for sq, g, w in wrong[:3])
            + " - snapshots generated with the significant-times cache skip a document while it still has visible content")
  return n


# ---------------------------------------------------------------------------------------
# ORD-docorder: in-order accumulation
# ---------------------------------------------------------------------------------------

def check_collects_in_document_order(ctx, f: FuncInfo, rule="ORD-docorder"):
  """A collector of paragraphs, interpreted (rules/minieval.py) on a sample tree with paragraphs at three nesting depths between
  and after nested divs: it returns every paragraph once, in document order - whether it recurses, keeps a stack, or concatenates.
  Returns False when the collector leaves the interpreted subset (the structural rule then decides)."""
  from ..consteval import NotConst, Raised
  from .minieval import MiniEval, Node
  p = [Node("P", f"p{i}") for i in range(6)]
  tree = Node("Div", "d0", [p[0], Node("Div", "d1", [p[1], Node("Div", "d2", [p[2]]), Node("Div", "d3", []), p[3]]), p[4], Node("Div", "d4", [p[5]])])
  me = MiniEval(ctx.ix)
  try:
    from ..consteval import Sym as _Sym
    args = [tree] if f.cls is None or f.is_static else [_Sym("self"), tree]
    got = me.call(f, args)
  except NotConst:
    return False
  except Raised:
    got = "raises"
  ctx.unit(f.module)
  want = [x.name for x in p]
  names = [getattr(x, "name", repr(x)) for x in got] if isinstance(got, list) else got
  ctx.check(names == want, rule, f"{f.qualname}|every paragraph once, in document order (sample tree)", ctx.where(f.module, f.node), f"interpreted on a sample tree: {names}",
            f"interpreted on a sample tree with paragraphs p0..p5 at three nesting depths, {f.short} returns {names}: paragraphs are lost, repeated or out of document order")
  return True


def check_inorder_accumulation(ctx, f: FuncInfo, acc: str, source: str, rule="ORD-docorder"):
  """All updates of accumulator `acc` happen inside ONE loop that iterates `source` in its
  natural order, and concatenations keep `acc` on the left (append / += / acc = acc + x)."""
  ctx.unit(f.module)
  loops = [lp for lp in own_nodes(f.node) if isinstance(lp, ast.For) and unparse(lp.iter) in (source, f"list({source})", f"iter({source})", f"tuple({source})")]
  updates = []
  for n in own_nodes(f.node):
    if isinstance(n, ast.Call) and isinstance(n.func, ast.Attribute) and n.func.attr in ("append", "extend", "insert") and unparse(n.func.value) == acc:
      updates.append(n)
    if isinstance(n, ast.AugAssign) and unparse(n.target) == acc:
      updates.append(n)
    if isinstance(n, ast.Assign) and unparse(n.targets[0]) == acc and not (isinstance(n.value, (ast.List, ast.Tuple)) and not n.value.elts) \
        and not (isinstance(n.value, ast.Call) and unparse(n.value) in ("list()", "[]")):
      updates.append(n)
  key = f"{f.qualname}|`{acc}` accumulated in the order of `{source}`"
  problems = []
  # comprehension form: acc = [x for s in <source> for x in <items of s>] keeps the order of source
  comp = [u for u in updates if isinstance(u, ast.Assign) and isinstance(u.value, ast.ListComp) and u.value.generators
          and unparse(u.value.generators[0].iter) in (source, f"list({source})", f"iter({source})", f"tuple({source})")]
  if len(comp) == 1 and len(updates) == 1:
    ctx.ok(rule, key, ctx.where(f.module, comp[0]), "built by one comprehension whose outer loop iterates the source in order")
    return
  loops = [lp for lp in loops if any(any(x is u for x in own_nodes(lp)) for u in updates)]
  if len(loops) != 1:
    problems.append(f"{len(loops)} loops over `{source}` update the accumulator (expected one in-order pass)")
  for u in updates:
    inside = loops and any(x is u for x in own_nodes(loops[0]))
    if not inside:
      problems.append(f"`{short(u, 50)}` updates the accumulator outside the in-order loop")
    if isinstance(u, ast.Call) and u.func.attr == "insert":
      problems.append(f"`{short(u, 50)}` inserts instead of appending")
    if isinstance(u, ast.Assign) and isinstance(u.value, ast.BinOp) and isinstance(u.value.op, ast.Add) and unparse(u.value.left) != acc:
      problems.append(f"`{short(u, 60)}` puts new items before the accumulated ones")
    if isinstance(u, ast.Assign) and inside and not any(isinstance(x, ast.Name) and x.id == acc for x in ast.walk(u.value)):
      problems.append(f"`{short(u, 60)}` replaces what was accumulated so far")
  if not updates:
    problems.append("no accumulator update found")
  ctx.check(not problems, rule, key, ctx.where(f.module, f.node), f"{len(updates)} in-order updates inside a single pass", "; ".join(problems) + ": items are no longer collected in document order")


# ---------------------------------------------------------------------------------------
# ORD-reset: a state flag is reset on every path after a point
# ---------------------------------------------------------------------------------------

def check_flag_reset(ctx, f: FuncInfo, flag: str, ext_texts: typing.Set[str], what: str, rule="ORD-reset", final_only=None, final_only_what=""):
  """Typestate of a boolean instance flag that records 'the block being processed continues in
  the next call' (ext_texts: normalised texts of the continuation condition, e.g.
  `tti.EBN != 255`).  On every path on which the block is known NOT to continue, the flag must be
  False at every exit of the function - otherwise the state of a finished (possibly dropped)
  subtitle leaks into the next call.  Path-sensitive dataflow over (flag value, known-final)."""
  from ..cfg import forward
  ctx.unit(f.module)
  cfg = CFG(f.node)
  selfflag = f"self.{flag}"

  def norm(e):
    return unparse(e).replace("0xFF", "255").replace("0xff", "255").replace(" ", "")
  exts = {t.replace(" ", "") for t in ext_texts}

  def transfer(node, state):
    a = node.ast
    if node.kind == "stmt" and isinstance(a, ast.Assign) and len(a.targets) == 1 and unparse(a.targets[0]) == selfflag:
      v = a.value
      if isinstance(v, ast.Constant) and v.value is False:
        nv = "F"
      elif isinstance(v, ast.Constant) and v.value is True:
        nv = "T"
      elif norm(v) in exts:
        nv = "EXT"
      else:
        nv = "?"
      return frozenset((nv, fin) for (_, fin) in state)
    return state

  def edge(node, lab, sin, sout):
    if isinstance(lab, tuple) and lab[0] == "exc":
      return sin
    if isinstance(lab, tuple) and lab[0] == "cond":
      t, pol = lab[1], lab[2]
      while isinstance(t, ast.UnaryOp) and isinstance(t.op, ast.Not):
        t, pol = t.operand, not pol
      tt = norm(t)
      out = set()
      if tt in exts:
        for (v, fin) in sout:
          if pol:
            continue            # the block continues: exits on this path are the legitimate 'extension' exits
          out.add(("F" if v == "EXT" else v, True))
        return frozenset(out)
      if tt in (selfflag.replace(" ", ""), f"{selfflag}isTrue"):
        for (v, fin) in sout:
          if v == "EXT":
            if not pol:
              out.add(("F", True))
          elif v == "T":
            if pol:
              out.add((v, fin))
          elif v == "F":
            if not pol:
              out.add((v, fin))
          else:
            out.add((v, fin))
        return frozenset(out)
    return sout

  inn = forward(cfg, frozenset({("U", False)}), transfer, lambda a, b: a | b, edge)
  bad_exits = []
  seen_final = False
  for (p, lab) in cfg.nodes[cfg.exit].pred:
    st = inn.get(p)
    if st is None:
      continue
    out = transfer(cfg.nodes[p], st)
    for (v, fin) in out:
      if fin:
        seen_final = True
        if v != "F":
          bad_exits.append((cfg.nodes[p].ast, v))
  if final_only is not None:
    early = []
    for n in cfg.nodes:
      if n.ast is not None and n.id in inn and final_only(n):
        if any(not fin for (_, fin) in inn[n.id]):
          early.append(n.ast)
    ctx.check(not early, rule, f"{f.qualname}|{final_only_what}", ctx.where(f.module, early[0] if early else f.node),
              "reached only when the block is known to be final",
              f"`{short(early[0], 60) if early else ''}` can run for a block that continues in the next call: {final_only_what}")
  if not seen_final:
    raise AnalysisError(f"{f.qualname}: no path on which the continuation condition {sorted(ext_texts)} is known to be false (anchor changed shape)")
  ctx.check(not bad_exits, rule, f"{f.qualname}|{what}", ctx.where(f.module, bad_exits[0][0] if bad_exits else f.node),
            f"`{selfflag}` is False at every exit reached with a final block",
            f"`{selfflag}` can still be {'set' if bad_exits and bad_exits[0][1] == 'T' else 'unchanged / not reset'} at the exit at line "
            f"{getattr(bad_exits[0][0], 'lineno', '?') if bad_exits else '?'} although the block is final: {what} leaks into the next call")


# ---------------------------------------------------------------------------------------
# FIN-timeexpr: h*3600 + m*60 + s + ms/1000 from the right regex groups
# ---------------------------------------------------------------------------------------

def eval_time_expr(ix: Index, f: FuncInfo, expr, groups: typing.Dict[str, str], optional=()):
  """Evaluate `expr` with every `m.group('<name>')` replaced by sample digit strings; returns list
  of (assignment, value).  groups: role -> group name, roles h, m, s, ms."""
  ce = ConstEval(ix, symbolic_ok=False)
  e, mapping = groups_substituted(ix, f, expr)
  return _eval_time_samples(ix, f, expr, e, mapping, groups, ce)


def groups_substituted(ix: Index, f: FuncInfo, expr):
  """expr with the locals read through and every `m.group(<name>)` replaced by the variable `__g_<name>`; returns (expression, {call text: variable})."""
  from .match import inline_locals_deep
  ce = ConstEval(ix, symbolic_ok=False)
  mapping = {}
  # locals that name a part of the time (hours = int(m.group('h')) ...) are read through to the groups
  expr = inline_locals_deep(f.node, expr, keep={unparse(n.func.value) for n in ast.walk(expr) if isinstance(n, ast.Call) and isinstance(n.func, ast.Attribute) and n.func.attr == "group"})
  for n in ast.walk(expr):
    if isinstance(n, ast.Call) and isinstance(n.func, ast.Attribute) and n.func.attr == "group" and n.args:
      gname = n.args[0].value if isinstance(n.args[0], ast.Constant) else ce.try_ev(f.module, n.args[0], default=None)
      if isinstance(gname, str):
        mapping[unparse(n)] = "__g_" + gname
  return substitute(expr, mapping), mapping


def _eval_time_samples(ix, f, expr, e, mapping, groups, ce):
  samples = [{"h": "01", "m": "02", "s": "03", "ms": "004"}, {"h": "10", "m": "59", "s": "00", "ms": "280"}, {"h": "100", "m": "07", "s": "59", "ms": "999"}]
  out = []
  for smp in samples:
    env = {}
    # distinct decoy values for all other groups so that a wrong group is noticed
    for k in mapping.values():
      env[k] = "77"
    for role, g in groups.items():
      env["__g_" + g] = smp[role]
    try:
      v = ce.ev(f.module, e, None, env)
    except NotConst as ex:
      raise AnalysisError(f"{f.qualname}: time expression `{short(expr)}` leaves the evaluable subset ({ex})")
    want = Fraction(int(smp["h"]) * 3600 + int(smp["m"]) * 60 + int(smp["s"])) + Fraction(int(smp["ms"]), 1000)
    out.append((smp, v, want))
  return out


# ---------------------------------------------------------------------------------------
# ORD-br / PAIR-span for the cue text parsers
# ---------------------------------------------------------------------------------------

def push_wrappers(ix: Index, cls) -> typing.Set[str]:
  """Names of the methods of `cls` that take one element and push it under some container on
  every path (wrappers of push_child: they count as a push at their call sites)."""
  out = set()
  if cls is None:
    return out
  for m in cls.methods.values():
    ps = [p_ for p_ in m.params if p_ not in ("self", "cls")]
    if len(ps) != 1:
      continue

    def pushes(stmts):
      for st in stmts:
        if isinstance(st, ast.If):
          if st.orelse and pushes(st.body) and pushes(st.orelse):
            return True
        elif any(isinstance(c, ast.Call) and isinstance(c.func, ast.Attribute) and c.func.attr == "push_child" for c in ast.walk(st)):
          return True
      return False
    if pushes(m.node.body):
      out.add(m.name)
  return out


def _is_push(c, wrappers) -> bool:
  return isinstance(c, ast.Call) and isinstance(c.func, ast.Attribute) and (c.func.attr == "push_child" or (c.func.attr in wrappers and isinstance(c.func.value, ast.Name) and c.func.value.id == "self"))


def check_line_breaks(ctx, f: FuncInfo, rule="ORD-br"):
  """In the per-line loop of a text handler, a Br is pushed at the insertion point before every line
  but the first, and nothing can skip it.  The loop body is evaluated for the first three iterations
  (index variable of enumerate, or a first-line flag, carried from one iteration to the next): the
  pushes recorded must be none / Br first / Br first, with no undecidable test that could skip or
  leave the loop in front of the Br."""
  from . import fineval
  ctx.unit(f.module)
  # first by interpretation on a sample text (any loop form); the handler must then be in the interpreted subset
  if f.cls is not None and len(f.params) == 2 and f.name == "handle_data":
    from ..consteval import NotConst as _NC, Raised as _R
    from .minieval import MiniEval, Node
    try:
      got, want = [], []
      for text in ("one\ntwo\n\nfour\n", "a\x0bb\u2028c\rd", "\n", " ", " \n\t"):
        para = Node("P", "paragraph", (), doc="doc")
        selfn = Node("Parser", "parser", (), parent=para, line_num=1)
        MiniEval(ctx.ix).call(f, [selfn, text])
        got.append([(c_.kind, [(g_.kind, g_.fields.get("text")) for g_ in c_.children]) for c_ in para.children])
        exp = []
        for k, ln in enumerate(text.split("\n")):
          if k:
            exp.append(("Br", []))
          exp.append(("Span", [("Text", ln)]))
        want.append(exp)
      ctx.check(got == want, rule, f"{f.qualname}|a line break precedes every line but the first", ctx.where(f.module, f.node),
                "interpreted on two sample texts: one span per line (empty and trailing ones too), a line break between consecutive lines, lines end at LF only",
                f"interpreted on the texts 'one\\ntwo\\n\\nfour\\n', 'a\\x0bb\\u2028c\\rd' and the white-space-only texts '\\n', ' ', ' \\n\\t' (what lies between two tags), the handler builds {got}; expected one span per LF-separated line "
                f"(the empty ones too) with a line break between consecutive lines, and no break at other characters")
      return
    except _R:
      ctx.bad(rule, f"{f.qualname}|a line break precedes every line but the first", ctx.where(f.module, f.node), "interpreted on a four-line text, the handler raises")
      return
    except _NC:
      pass
  loops = [lp for lp in own_nodes(f.node) if isinstance(lp, ast.For) and not any(isinstance(o, ast.For) and o is not lp and any(x is lp for x in ast.walk(o)) for o in own_nodes(f.node))]
  loops = [lp for lp in loops if any(isinstance(c, ast.Call) and "Br(" in unparse(c) for c in ast.walk(lp))]
  if len(loops) != 1:
    raise AnalysisError(f"{f.qualname}: expected one per-line loop that pushes Br elements, found {len(loops)}")
  lp = loops[0]
  it = lp.iter
  idx = None
  if isinstance(it, ast.Call) and isinstance(it.func, ast.Name) and it.func.id == "enumerate" and isinstance(lp.target, ast.Tuple) and isinstance(lp.target.elts[0], ast.Name):
    idx = lp.target.elts[0].id
  wrappers = push_wrappers(ctx.ix, f.cls)
  # the statements before the loop give the initial values of flags
  blk = next((getattr(parent(lp), fld) for fld in ("body", "orelse") if isinstance(getattr(parent(lp), fld, None), list) and any(x is lp for x in getattr(parent(lp), fld))), [])
  pre = fineval.collect(ctx.ix, f, blk[:next(k for k, x in enumerate(blk) if x is lp)], {}, ("self.parent", "self"))
  env = dict(pre.env)
  problems = []
  for k in range(3):
    if idx is not None:
      env[idx] = k
    eff = fineval.collect(ctx.ix, f, lp.body, env, ("self.parent", "self"))
    env = dict(eff.env)
    pushes_before_br, br, blocked = 0, False, False
    for ev in eff.trace:
      if ev[0] == "skipped-if":
        if not br and any(isinstance(x, (ast.Continue, ast.Break, ast.Return)) or (isinstance(x, ast.Call) and "Br(" in unparse(x)) for x in ast.walk(ev[1])):
          blocked = True
      elif ev[1] == "push_child" or ev[1] in wrappers:
        is_br = any("Br(" in unparse(a) for a in ev[3].args)
        if is_br:
          br = True
        elif not br:
          pushes_before_br += 1
    if k == 0 and br:
      problems.append("a Br is pushed before the first line")
    if k > 0 and not br:
      problems.append(f"no Br is pushed in iteration {k}" + (" (it depends on a test that cannot be decided here)" if blocked else ""))
    if k > 0 and br and (pushes_before_br or blocked):
      problems.append(f"in iteration {k} the Br does not come first")
  ctx.check(not problems, rule, f"{f.qualname}|a line break precedes every line but the first", ctx.where(f.module, lp),
            "iterations 0, 1, 2 of the per-line loop push: nothing / Br first / Br first",
            "; ".join(problems[:3]) + ": a line break can be skipped, doubled or land outside the open span")
  # the split is on the newline character
  sp = [c for c in own_nodes(f.node) if isinstance(c, ast.Call) and isinstance(c.func, ast.Attribute) and c.func.attr == "split"]
  ctx.check(any(c.args and isinstance(c.args[0], ast.Constant) and c.args[0].value == "\n" for c in sp), rule, f"{f.qualname}|lines are split at newline", ctx.where(f.module, f.node),
            "split('\\n')", "text is no longer split at the newline character")


def check_span_pairing(ctx, start: FuncInfo, end: FuncInfo, attr="parent", rule="PAIR-span"):
  """Start-tag handler: on every path that does not return before, a fresh Span is created,
  pushed under the insertion point and made the insertion point (unconditionally, before any
  tag-specific branch); end-tag handler pops exactly one level per call (one more only in the
  tabled ruby cases, see NUL-parent)."""
  ctx.unit(start.module)
  body = [s for s in start.node.body if not (isinstance(s, ast.Expr) and isinstance(s.value, ast.Constant))]
  selfattr = f"self.{attr}"
  # find the *generic* span creation: top-level statements  span = <Span ctor / _make_span>; self.parent.push_child(span); self.parent = span
  seq = []
  for i, st in enumerate(body):
    t = unparse(st)
    if isinstance(st, ast.Assign) and unparse(st.targets[0]) == "span" and ("model.Span(" in t or "_make_span(" in t):
      seq.append(("new", i))
    elif isinstance(st, ast.Expr) and (t == f"{selfattr}.push_child(span)" or (_is_push(st.value, push_wrappers(ctx.ix, start.cls)) and len(st.value.args) == 1 and unparse(st.value.args[0]) == "span")):
      seq.append(("push", i))
    elif isinstance(st, ast.Assign) and unparse(st.targets[0]) == selfattr and unparse(st.value) == "span":
      seq.append(("enter", i))
  kinds = [k for k, _ in seq]
  ok = kinds[:3] == ["new", "push", "enter"] and seq[1][1] == seq[0][1] + 1 and seq[2][1] == seq[1][1] + 1
  ctx.check(ok, rule, f"{start.qualname}|every start tag opens exactly one span level", ctx.where(start.module, start.node),
            "span = Span(); parent.push_child(span); parent = span - unconditional, at function level",
            "the start-tag handler no longer unconditionally creates one new span, pushes it and makes it the insertion point "
            f"(found top-level sequence {kinds}): tag nesting and the end-tag handler's one-pop-per-tag get out of step")
  # a branch in front of the generic sequence that returns (the ruby / rt special cases) opens its own level: it makes some new element
  # the insertion point before it returns - else the end tag of that start tag closes a level that was never opened
  if ok:
    for st in body[:seq[0][1]]:
      if isinstance(st, ast.If) and st.body and isinstance(st.body[-1], ast.Return) and not any(isinstance(x, ast.Raise) for x in st.body):
        enters = any(isinstance(x, ast.Assign) and any(unparse(t_) == selfattr for t_ in x.targets) for y in st.body for x in ast.walk(y))
        ctx.check(enters, rule, f"{start.qualname}|the early return under `{short(st.test, 50)}` opens a level too", ctx.where(start.module, st),
                  f"the branch sets {selfattr} before it returns",
                  f"the start-tag handler returns under `{short(st.test, 60)}` without making a new element the insertion point, while the end-tag handler pops one level for every end tag: "
                  "the end tag of such a start tag closes the enclosing element, and the text after it loses that element's styling")
  ctx.unit(end.module)
  # every path through the end-tag handler pops a level, except the paths on which the insertion point is known to
  # be the paragraph (nothing is open: the unmatched-tag warning) and explicit early returns
  from .match import relation as _rel

  def is_pop(st):
    return isinstance(st, ast.Assign) and unparse(st.targets[0]) == selfattr and unparse(st.value) == f"{selfattr}.parent()"

  def at_root(test, pol):
    neg = False
    while isinstance(test, ast.UnaryOp) and isinstance(test.op, ast.Not):
      neg, test = not neg, test.operand
    isroot = isinstance(test, ast.Call) and isinstance(test.func, ast.Name) and test.func.id == "isinstance" and len(test.args) == 2 \
      and unparse(test.args[0]) == selfattr and unparse(test.args[1]).split(".")[-1] == "P"
    return isroot and (pol != neg)

  def walk(stmts, pops, root):
    """yields (pops, root, ended) for every path through stmts; ended: 'fall' / 'return'"""
    if not stmts:
      yield pops, root, "fall"
      return
    st, rest = stmts[0], stmts[1:]
    if isinstance(st, ast.Return) or isinstance(st, ast.Raise):
      yield pops, root, "return"
    elif isinstance(st, ast.If):
      for body, pol in ((st.body, True), (st.orelse, False)):
        for p2, r2, e2 in walk(body, pops, root or at_root(st.test, pol)):
          if e2 == "fall":
            yield from walk(rest, p2, r2)
          else:
            yield p2, r2, e2
    else:
      yield from walk(rest, pops + (1 if is_pop(st) else 0), root)
  paths = list(walk([s_ for s_ in end.node.body if not (isinstance(s_, ast.Expr) and isinstance(s_.value, ast.Constant))], 0, False))
  # an early return counts like falling off the end: every start tag opened a level, so a path that neither pops nor
  # knows that nothing is open leaves that level open whatever the tag name was
  bad_paths = [p_ for p_ in paths if not p_[1] and p_[0] < 1]
  n_pops = sum(1 for st in own_nodes(end.node) if is_pop(st))
  ctx.check(not bad_paths and n_pops >= 1, rule, f"{end.qualname}|every end tag closes exactly one span level", ctx.where(end.module, end.node),
            f"{len(paths)} paths: each pops a level unless nothing is open", f"{len(bad_paths)} of {len(paths)} paths through the end-tag handler leave the insertion point where it was although a span is open (pops in the handler: {n_pops})")


# ---------------------------------------------------------------------------------------
# TAB-region-key: region reuse compares every varying style
# ---------------------------------------------------------------------------------------

def check_region_key(ctx, f: FuncInfo, rule="TAB-region-key"):
  """A get-or-make-region helper must compare, when looking for a reusable region, every style
  property that it sets from a *non-constant* value on a newly made region."""
  ix = ctx.ix
  ctx.unit(f.module)
  ce = ConstEval(ix, symbolic_ok=True)
  # the function together with the private helpers of its module that it calls (an extracted lookup / constructor)
  group = [f]
  for g in group:
    for c in own_nodes(g.node):
      if isinstance(c, ast.Call):
        r = ix.resolve(g.module, c.func, cls=g.cls, func=g)
        if isinstance(r, FuncInfo) and r.module is f.module and r.name.startswith("_") and r not in group and len(group) < 6:
          group.append(r)
  compared = set()
  setvar = {}
  for g in group:
    ctx.unit(g.module)
    itervars = set()
    for n in own_nodes(g.node):
      if isinstance(n, ast.For):
        itervars |= {x.id for x in ast.walk(n.target) if isinstance(x, ast.Name)}
      if isinstance(n, (ast.GeneratorExp, ast.ListComp, ast.SetComp)):
        for gen in n.generators:
          itervars |= {x.id for x in ast.walk(gen.target) if isinstance(x, ast.Name)}
    # a loop variable that ranges over a literal table of (property, value) rows stands for every property of that table
    from .match import local_defs
    ldefs = local_defs(g.node)
    ranges = {}
    for n in own_nodes(g.node):
      gens = n.generators if isinstance(n, (ast.GeneratorExp, ast.ListComp, ast.SetComp)) else ([n] if isinstance(n, ast.For) else [])
      for gen in gens:
        tab = gen.iter
        if isinstance(tab, ast.Name) and len(ldefs.get(tab.id, [])) == 1:
          tab = ldefs[tab.id][0]
        tab = ix.deref(g.module, tab, cls=g.cls, func=g)
        if not isinstance(tab, (ast.Tuple, ast.List)):
          continue
        tgts = gen.target.elts if isinstance(gen.target, ast.Tuple) else [gen.target]
        for i, t in enumerate(tgts):
          if isinstance(t, ast.Name):
            col = [(row.elts[i] if isinstance(row, (ast.Tuple, ast.List)) and len(row.elts) == len(tgts) and isinstance(gen.target, ast.Tuple) else row) for row in tab.elts]
            ranges[t.id] = col
    for c in own_nodes(g.node):
      if isinstance(c, ast.Call) and isinstance(c.func, ast.Attribute) and c.func.attr == "get_style" and c.args and isinstance(c.func.value, ast.Name) and c.func.value.id in itervars:
        a = c.args[0]
        for e in (ranges[a.id] if isinstance(a, ast.Name) and a.id in ranges else [a]):
          compared.add(unparse(e).split(".")[-1])
    for c in own_nodes(g.node):
      if isinstance(c, ast.Call) and isinstance(c.func, ast.Attribute) and c.func.attr == "set_style" and len(c.args) == 2:
        p = unparse(c.args[0]).split(".")[-1]
        v = c.args[1]
        const = False
        if isinstance(v, ast.Constant):
          const = True
        elif isinstance(v, ast.Name):
          r = ix.resolve(g.module, v, func=g)
          const = isinstance(r, tuple) and r[0] == "assign" and v.id not in _locals_of(g)
        setvar[p] = setvar.get(p, False) or not const
  varying = {p for p, var in setvar.items() if var}
  if len(varying) < 3:
    raise AnalysisError(f"{f.qualname}: fewer than 3 varying styles set on a new region (anchor changed shape)")
  missing = varying - compared
  ctx.check(not missing, rule, f"{f.qualname}|lookup compares {sorted(varying)}", ctx.where(f.module, f.node), f"compared: {sorted(compared)}",
            f"a region is reused without comparing {sorted(missing)}, which differ between cues / subtitles: content with different {sorted(missing)} shares one region")


def _locals_of(f: FuncInfo):
  out = set(f.params)
  for n in own_nodes(f.node):
    if isinstance(n, ast.Name) and isinstance(n.ctx, ast.Store):
      out.add(n.id)
  return out


# ---------------------------------------------------------------------------------------
# TYPESTATE-buffer: state machine transitions between states sharing an accumulator
# ---------------------------------------------------------------------------------------

def check_state_buffers(ctx, f: FuncInfo, state_var="state", buffers=("buffer", "result"), rule="TYPESTATE-buffer",
                        continuation: typing.Optional[typing.Dict[typing.Tuple[str, str], str]] = None):
  """For a `while`-loop state machine written as `if state is S1: ... elif state is S2: ...`:
  whenever a branch of state S1 moves to a different state S2 and both S1's block and S2's
  block append to the same accumulator variable, the branch must re-initialise that variable
  (otherwise S1's partial content is prepended to S2's).  `continuation` tables the transitions
  where carrying the accumulator over is intended."""
  continuation = continuation or {}
  ctx.unit(f.module)
  blocks = {}
  for n in own_nodes(f.node):
    if isinstance(n, ast.If) and isinstance(n.test, ast.Compare) and unparse(n.test.left) == state_var and isinstance(n.test.ops[0], (ast.Is, ast.Eq)):
      blocks[unparse(n.test.comparators[0]).split(".")[-1]] = n.body
  if len(blocks) < 4:
    raise AnalysisError(f"{f.qualname}: state machine blocks not found")

  def appends(body, var):
    for st in body:
      for c in ast.walk(st):
        if isinstance(c, ast.Call) and isinstance(c.func, ast.Attribute) and c.func.attr in ("append", "extend") and unparse(c.func.value) == var:
          return True
    return False
  n_tr = 0
  for s1, body in blocks.items():
    for br in _branches(body):
      tgt = None
      for st in br:
        if isinstance(st, ast.Assign) and unparse(st.targets[0]) == state_var:
          tgt = unparse(st.value).split(".")[-1]
      if tgt is None or tgt == s1 or tgt not in blocks:
        continue
      for var in buffers:
        if appends(body, var) and appends(blocks[tgt], var):
          n_tr += 1
          reinit = any(isinstance(st, ast.Assign) and unparse(st.targets[0]) == var for st in br)
          key = f"{f.qualname}|{s1}->{tgt}|{var}"
          if (s1, tgt) in continuation and continuation[(s1, tgt)] == var:
            ctx.ok(rule, key + "|continuation", ctx.where(f.module, br[0]), "tabled: the accumulator is intentionally carried over")
            continue
          ctx.check(reinit, rule, key, ctx.where(f.module, br[0]), f"`{var}` is re-initialised on the transition",
                    f"the transition {s1} -> {tgt} keeps `{var}`, which both states append to: what {s1} collected is prepended to what {tgt} collects")
  return n_tr


def check_state_flush(ctx, f: FuncInfo, state_var="state", buffer="buffer", rule="TYPESTATE-flush", continuation=None):
  """In a state whose block accumulates pending characters in `buffer`, every branch that leaves the
  state (assigns another state, breaks or yields a token) reads the buffer - pending characters are
  emitted or handed on, never dropped."""
  ctx.unit(f.module)
  blocks = {}
  for n in own_nodes(f.node):
    if isinstance(n, ast.If) and isinstance(n.test, ast.Compare) and unparse(n.test.left) == state_var and isinstance(n.test.ops[0], (ast.Is, ast.Eq)):
      blocks[unparse(n.test.comparators[0]).split(".")[-1]] = n.body
  n = 0
  for s1, body in blocks.items():
    fills = any(isinstance(c, ast.Call) and isinstance(c.func, ast.Attribute) and c.func.attr in ("append", "extend") and unparse(c.func.value) == buffer for st in body for c in ast.walk(st))
    if not fills:
      continue
    for br in _branches(body):
      leaves = False
      for st in br:
        for x in ast.walk(st):
          if isinstance(x, ast.Assign) and unparse(x.targets[0]) == state_var and unparse(x.value).split(".")[-1] != s1:
            if continuation and (s1, unparse(x.value).split(".")[-1]) in continuation:
              continue      # tabled: the next state keeps filling the same buffer
            leaves = True
          if isinstance(x, (ast.Break, ast.Yield, ast.Return)):
            leaves = True
      if not leaves:
        continue
      n += 1
      reads = any(isinstance(x, ast.Name) and x.id == buffer and isinstance(x.ctx, ast.Load) and not (isinstance(getattr(x, "_parent", None), ast.Attribute) and x._parent.attr in ("append",)) for st in br for x in ast.walk(st))
      resets_only = not reads and any(isinstance(x, ast.Assign) and unparse(x.targets[0]) == buffer for st in br for x in ast.walk(st))
      ctx.check(reads, rule, f"{f.qualname}|{s1}|{short(br[0], 40)}", ctx.where(f.module, br[0]), f"the branch reads `{buffer}` before leaving {s1}",
                f"the branch `{short(br[0], 50)}` leaves state {s1} without reading `{buffer}`" + (" (it only re-initialises it)" if resets_only else "") + f": the characters collected in {s1} are dropped from the output")
  return n


def _branches(body):
  """Leaf statement lists of an if/elif/else chain nest."""
  out = []
  for st in body:
    if isinstance(st, ast.If):
      out += _branches(st.body)
      out += _branches(st.orelse)
  simple = [st for st in body if not isinstance(st, ast.If)]
  if simple:
    out.append(simple)
  return out


# ---------------------------------------------------------------------------------------
# ORD-settings: a mode variable is final before it is consulted
# ---------------------------------------------------------------------------------------

def check_final_before_use(ctx, f: FuncInfo, var: str, rule="ORD-settings"):
  ctx.unit(f.module)
  body = f.node.body
  assign_idx, read_idx = [], []
  for i, st in enumerate(body):
    for n in ast.walk(st):
      if isinstance(n, ast.Name) and n.id == var:
        (assign_idx if isinstance(n.ctx, ast.Store) else read_idx).append(i)
  if not assign_idx or not read_idx:
    raise AnalysisError(f"{f.qualname}: variable `{var}` not found")
  last_assign = max(assign_idx)
  reads_before = [i for i in read_idx if i < last_assign and i not in assign_idx]
  ctx.check(not reads_before, rule, f"{f.qualname}|`{var}` is final before it is consulted", ctx.where(f.module, body[last_assign]),
            f"last assignment in statement {last_assign}, first read later",
            f"`{var}` is read (statement {reads_before[:1]}) before its last assignment (statement {last_assign}): settings that depend on it are evaluated with the default value")


# ---------------------------------------------------------------------------------------
# LINT-h: falsy zero
# ---------------------------------------------------------------------------------------

def check_falsy_zero(ctx, funcs: typing.Iterable[FuncInfo], numeric_attrs: typing.Set[str], rule="LINT-h"):
  """`x or default` where x is a numeric configuration field / time value for which 0 is a legal
  value and the default differs from 0: the legal value 0 is replaced by the default."""
  n = 0
  ix = ctx.ix
  ce = ConstEval(ix, symbolic_ok=True)
  for f in funcs:
    for node in own_nodes(f.node):
      if isinstance(node, ast.BoolOp) and isinstance(node.op, ast.Or) and len(node.values) == 2:
        a, b = node.values
        at = unparse(a)
        is_num = (isinstance(a, ast.Attribute) and a.attr in numeric_attrs) or \
          (isinstance(a, ast.Call) and isinstance(a.func, ast.Attribute) and a.func.attr in numeric_attrs and not a.args)
        if not is_num:
          continue
        n += 1
        ctx.unit(f.module)
        bv = ce.try_ev(f.module, b, f.cls, default="?")
        same = (bv == 0 and not isinstance(bv, bool))
        ctx.check(same, rule, f"{f.qualname}|{short(node, 70)}", ctx.where(f.module, node), "the default equals the falsy value 0",
                  f"`{short(node, 70)}`: `{at}` may legitimately be 0, which is falsy, so 0 is silently replaced by `{unparse(b)}`")
  return n


# ---------------------------------------------------------------------------------------
# STATE-alias: module-level mutable object mutated through a local alias
# ---------------------------------------------------------------------------------------

MUTATING = {"update", "append", "extend", "insert", "pop", "popitem", "clear", "setdefault", "add", "discard", "remove", "sort", "reverse"}


def check_no_global_mutation(ctx, funcs: typing.Iterable[FuncInfo], rule="STATE-alias", allowed: typing.Optional[typing.Dict[str, str]] = None):
  """No function binds a local directly to a module- or class-level dict/list/set (without
  copying) and then mutates it, and none mutates such an object directly: later calls in the same
  process would see the mutation."""
  ix = ctx.ix
  allowed = allowed or {}
  n = 0
  ty_ = None
  verdicts: typing.Dict[str, typing.List[str]] = {}
  evictions = []
  funcs = list(funcs)
  for f in funcs:
    aliases = {}
    for st in own_nodes(f.node):
      if isinstance(st, ast.Assign) and len(st.targets) == 1 and isinstance(st.targets[0], ast.Name) and isinstance(st.value, (ast.Name, ast.Attribute)):
        g = _global_container(ix, f, st.value)
        if g is not None:
          aliases[st.targets[0].id] = g
    for c in own_nodes(f.node):
      tgt = None
      if isinstance(c, ast.Call) and isinstance(c.func, ast.Attribute) and c.func.attr in MUTATING:
        tgt = c.func.value
      elif isinstance(c, (ast.Assign, ast.AugAssign, ast.Delete)):
        ts = c.targets if isinstance(c, (ast.Assign, ast.Delete)) else [c.target]
        for t in ts:
          if isinstance(t, ast.Subscript):
            tgt = t.value
      if tgt is None:
        continue
      g = None
      if isinstance(tgt, ast.Name) and tgt.id in aliases:
        g = aliases[tgt.id]
      elif isinstance(tgt, (ast.Name, ast.Attribute)) and not (isinstance(tgt, ast.Name) and tgt.id in _locals_of(f)):
        g = _global_container(ix, f, tgt)
      if g is None:
        continue
      n += 1
      ctx.unit(f.module)
      key = f"{f.qualname}|{short(c, 60)}"
      if g in allowed:
        ctx.ok(rule, key + "|allowed", ctx.where(f.module, c), "tabled: " + allowed[g])
        continue
      from . import memo
      if ty_ is None:
        from ..typing_lite import Typer
        ty_ = Typer(ix)
      try:
        verdict, why = memo.analyse_store(ix, ty_, f, c, g)
      except RecursionError:
        verdict, why = "undecided", "dependence slice too deep"
      if verdict == "evict":
        evictions.append((f, c, g, key))
        continue
      verdicts.setdefault(g, []).append(verdict)
      if verdict == "sound":
        ctx.ok(rule, key + "|memo", ctx.where(f.module, c), why)
      elif verdict == "undecided":
        ctx.undecide(rule, f"{key}: {why}")
      elif verdict == "violation":
        ctx.bad(rule, key, ctx.where(f.module, c), f"`{short(c, 60)}` fills the module/class-level object `{g}`, which outlives the call, and it is not a sound memo: {why}")
      else:
        ctx.bad(rule, key, ctx.where(f.module, c), f"`{short(c, 60)}` mutates the module/class-level object `{g}`: the change persists into later calls in the same process")
  for (f, c, g, key) in evictions:
    vs = verdicts.get(g, [])
    if vs and all(v == "sound" for v in vs):
      ctx.ok(rule, key + "|memo eviction", ctx.where(f.module, c), f"entries of the memo `{g}` are dropped (they are recomputed)")
    elif vs and all(v in ("sound", "undecided") for v in vs):
      ctx.undecide(rule, f"{key}: eviction from a container whose stores are undecided")
    else:
      ctx.bad(rule, key, ctx.where(f.module, c), f"`{short(c, 60)}` mutates the module/class-level object `{g}`: the change persists into later calls in the same process")
  return n


def _is_container_literal(v) -> bool:
  return isinstance(v, (ast.Dict, ast.List, ast.Set)) or (isinstance(v, ast.Call) and unparse(v.func) in ("dict", "list", "set", "collections.OrderedDict", "collections.defaultdict", "defaultdict", "OrderedDict"))


def _global_container(ix: Index, f: FuncInfo, expr) -> typing.Optional[str]:
  if isinstance(expr, ast.Attribute) and isinstance(expr.value, ast.Name) and expr.value.id in ("cls", "self") and f.cls is not None:
    # a class-level container reached through cls / self (never re-bound per instance) is shared by all instances
    for c in ix.mro(f.cls):
      v = c.assigns.get(expr.attr)
      if v is not None:
        if not _is_container_literal(v):
          return None
        rebound = any(isinstance(st, (ast.Assign, ast.AnnAssign)) and any(unparse(t) == f"self.{expr.attr}" for t in (st.targets if isinstance(st, ast.Assign) else [st.target]))
                      for k in ix.mro(f.cls) for m in k.methods.values() for st in own_nodes(m.node))
        return None if rebound else f"{c.short}.{expr.attr}"
    return None
  if isinstance(expr, ast.Name) and expr.id in _locals_of(f) and expr.id not in ix.toplevel.get(f.module.name, {}):
    return None
  r = ix.resolve(f.module, expr, cls=f.cls, func=f)
  if isinstance(r, tuple) and r[0] == "assign":
    v = r[2]
    if _is_container_literal(v) or (isinstance(v, ast.Call) and unparse(v.func).split(".")[-1] in (
        "WeakKeyDictionary", "WeakValueDictionary", "WeakSet", "deque", "Counter", "ChainMap", "SimpleNamespace", "local")):
      return unparse(expr)
  return None


def check_no_memo_decorators(ctx, funcs: typing.Iterable[FuncInfo], rule="STATE-global", allowed: typing.Optional[typing.Dict[str, str]] = None):
  """functools.lru_cache / cache keep results for the life of the process, keyed by argument
  identity or equality: results go stale when an argument (a document, an element) is modified, and
  value-equal arguments share an entry."""
  allowed = allowed or {}
  n = 0
  for f in funcs:
    for d in f.node.decorator_list:
      t = unparse(d.func if isinstance(d, ast.Call) else d)
      if t.split(".")[-1] in ("lru_cache", "cache", "cached_property"):
        n += 1
        ctx.unit(f.module)
        if f.qualname in allowed:
          ctx.ok(rule, f"{f.qualname}|@{t}|allowed", ctx.where(f.module, d), "tabled: " + allowed[f.qualname])
        else:
          ctx.bad(rule, f"{f.qualname}|@{t}", ctx.where(f.module, d), f"`@{t}` on {f.short} memoises results for the life of the process: later calls do not see changes made to the arguments' objects, "
                  "and the result of one conversion depends on earlier ones")
  return n


def check_no_process_state(ctx, funcs: typing.Iterable[FuncInfo], rule="STATE-global", allowed: typing.Optional[typing.Dict[str, str]] = None):
  """No function rebinds module- or class-level state: no `global` statement, no assignment to an
  attribute of a class / module / module-level instance (other than `self`), and no mutation of a
  parameter's mutable default value.  Such state survives the call and makes later calls in the same
  process depend on earlier ones."""
  from ..core import ClassInfo, Module
  ix = ctx.ix
  allowed = allowed or {}
  n = 0
  for f in funcs:
    loc = _locals_of(f)
    mutable_defaults = set()
    a = f.node.args
    pos = a.posonlyargs + a.args
    for p, d in list(zip(pos[len(pos) - len(a.defaults):], a.defaults)) + [(p, d) for p, d in zip(a.kwonlyargs, a.kw_defaults) if d is not None]:
      if isinstance(d, (ast.Dict, ast.List, ast.Set)) or (isinstance(d, ast.Call) and unparse(d.func) in ("dict", "list", "set", "collections.OrderedDict", "collections.defaultdict")):
        mutable_defaults.add(p.arg)
    for st in own_nodes(f.node):
      what = None
      if isinstance(st, ast.Global):
        what = ("global " + ", ".join(st.names), f"declares {st.names} global and can rebind module state")
      elif isinstance(st, (ast.Assign, ast.AugAssign, ast.AnnAssign)):
        ts = st.targets if isinstance(st, ast.Assign) else [st.target]
        for t in ts:
          if isinstance(t, ast.Attribute) and isinstance(t.value, (ast.Name, ast.Attribute)):
            base = t.value
            if isinstance(base, ast.Name) and base.id == "self":
              continue
            if isinstance(base, ast.Name) and base.id == "cls" and f.is_classmethod:
              what = (unparse(t), f"assigns the class attribute `{unparse(t)}`")
              continue
            if isinstance(base, ast.Name) and base.id in loc and base.id not in ix.toplevel.get(f.module.name, {}):
              continue
            r = ix.resolve(f.module, base, cls=f.cls, func=f)
            if isinstance(r, (ClassInfo, Module)):
              what = (unparse(t), f"assigns `{unparse(t)}`, an attribute of the {'class' if isinstance(r, ClassInfo) else 'module'} `{unparse(base)}`")
            elif isinstance(r, tuple) and r[0] == "assign" and isinstance(base, ast.Name) and base.id in ix.toplevel.get(f.module.name, {}):
              what = (unparse(t), f"assigns `{unparse(t)}`, an attribute of the module-level object `{unparse(base)}`")
          if isinstance(t, ast.Subscript) and isinstance(t.value, ast.Name) and t.value.id in mutable_defaults:
            what = (unparse(t.value) + "[...]", f"stores into the mutable default value of parameter `{t.value.id}`, which is shared by all calls")
      elif isinstance(st, ast.Call) and isinstance(st.func, ast.Attribute) and st.func.attr in MUTATING and isinstance(st.func.value, ast.Name) and st.func.value.id in mutable_defaults:
        rebinds = any(isinstance(x, ast.Assign) and any(isinstance(y, ast.Name) and y.id == st.func.value.id for y in x.targets) for x in own_nodes(f.node))
        if not rebinds:
          what = (unparse(st.func), f"mutates the mutable default value of parameter `{st.func.value.id}`, which is shared by all calls")
      if what is None:
        continue
      n += 1
      ctx.unit(f.module)
      key = f"{f.qualname}|{what[0]}"
      if what[0] in allowed:
        ctx.ok(rule, key + "|allowed", ctx.where(f.module, st), "tabled: " + allowed[what[0]])
      else:
        ctx.bad(rule, key, ctx.where(f.module, st), f"`{short(st, 60)}` {what[1]}: the effect persists into later conversions in the same process")
  return n


def check_memo_single_producer(ctx, cls, rule="MEMO"):
  """A dict attribute used as a memo (`self.D[k] = v` after a lookup of `self.D`) is filled by one
  producer only: when two different computations store into the same dict under keys drawn from
  the same value space, one reads back the other's result."""
  from .match import local_defs
  ix = ctx.ix
  stores: typing.Dict[str, typing.List[typing.Tuple[str, FuncInfo, ast.AST]]] = {}
  for m in cls.methods.values():
    defs = local_defs(m.node)
    for st in own_nodes(m.node):
      if isinstance(st, ast.Assign) and len(st.targets) == 1 and isinstance(st.targets[0], ast.Subscript):
        base = st.targets[0].value
        if isinstance(base, ast.Attribute) and isinstance(base.value, ast.Name) and base.value.id == "self":
          v = st.value
          if isinstance(v, ast.Name):
            # the value the local holds at this store (the assignments that precede it in the enclosing statement lists)
            from .match import inline_locals_deep
            v1 = inline_locals_deep(m.node, v, depth=1)
            if not (isinstance(v1, ast.Name) and v1.id == v.id):
              v = v1
          if isinstance(v, ast.Name) and len(defs.get(v.id, [])) >= 1:
            cands = {unparse(d.func) if isinstance(d, ast.Call) else unparse(d) for d in defs[v.id] if not (isinstance(d, ast.Subscript) and unparse(d.value) == unparse(base))}
            prod = " | ".join(sorted(cands))
          else:
            prod = unparse(v.func) if isinstance(v, ast.Call) else unparse(v)
          stores.setdefault(base.attr, []).append((prod, m, st))
  n = 0
  for d, lst in sorted(stores.items()):
    n += 1
    ctx.unit(cls.module)
    prods = sorted({p for p, _, _ in lst})
    ctx.check(len(prods) == 1, rule, f"{cls.qualname}|self.{d} has a single producer", ctx.where(cls.module, lst[0][2]), f"filled by `{prods[0]}`",
              f"the memo `self.{d}` is filled by different computations ({', '.join('`' + p + '`' for p in prods)}): a key stored by one is read back by the other")
    # the key names everything the stored value was computed from: a parameter of the method that influences the value
    # (a getter passed in, a property name) but not the key makes two different requests share an entry
    from .match import depends_on
    for prod, m, st in lst:
      params = [p_ for p_ in m.params if p_ not in ("self", "cls")]
      if not params:
        continue
      key_names = {x.id for x in ast.walk(st.targets[0].slice) if isinstance(x, ast.Name)}
      val_names = {x.id for x in ast.walk(st.value) if isinstance(x, ast.Name)}
      influences = [p_ for p_ in params if (depends_on(m.node, p_) & val_names) and not (depends_on(m.node, p_) & key_names)]
      n += 1
      ctx.check(not influences, rule, f"{m.qualname}|the key of self.{d} covers what the value depends on", ctx.where(m.module, st), "every parameter behind the value is part of the key",
                f"`{short(st, 60)}`: the stored value depends on the parameter(s) {influences}, which the key does not include: two calls that differ only there "
                f"(the same colour as text colour and as background) read each other's entry")
  return n


def check_cache_keys(ctx, funcs: typing.Iterable[FuncInfo], rule="MEMO-key"):
  """A dictionary used as a cache (name contains `cache` / `memo`) must not be keyed by objects
  that compare by value (dataclasses, tuples of them): two distinct owners with equal values share
  an entry.  Keys are typed with the light type inference; untyped keys are not judged."""
  from ..typing_lite import Typer
  ix = ctx.ix
  ty = Typer(ix)
  n = 0
  for f in funcs:
    env = None
    for node in own_nodes(f.node):
      key = None
      if isinstance(node, ast.Subscript) and isinstance(node.value, (ast.Name, ast.Attribute)):
        nm = unparse(node.value).split(".")[-1].lower()
        if ("cache" in nm or "memo" in nm) and not isinstance(node.slice, ast.Slice):
          key = node.slice
      elif isinstance(node, ast.Call) and isinstance(node.func, ast.Attribute) and node.func.attr in ("get", "setdefault", "pop") and node.args:
        nm = unparse(node.func.value).split(".")[-1].lower()
        if "cache" in nm or "memo" in nm:
          key = node.args[0]
      if key is None:
        continue
      if env is None:
        env = ty.env(f)
      try:
        t = ty.expr_type(f.module, key, env, f.cls, f)
      except Exception:
        t = None
      cls = t[1] if isinstance(t, tuple) and len(t) == 2 and t[0] == "inst" else (t if hasattr(t, "is_dataclass") else None)
      n += 1
      ctx.unit(f.module)
      k = f"{f.qualname}|{short(node, 50)}"
      if cls is not None and getattr(cls, "is_dataclass", False):
        ctx.bad(rule, k, ctx.where(f.module, node), f"`{short(node, 60)}` keys a cache by `{short(key, 30)}`, a {cls.name} value (a dataclass compares and hashes by value): "
                f"equal values that belong to different elements share one cache entry")
      else:
        ctx.ok(rule, k, ctx.where(f.module, node), f"key `{short(key, 30)}` is not a value object")
  return n


def check_independent_updates(ctx, f: FuncInfo, rule="INDEP"):
  """`if A: update X  elif B: update Y` where A and B read disjoint state and X, Y are different
  targets: the two updates are independent, so chaining them with `elif` loses the second one
  whenever both conditions hold (the only child is both first and last; a region has both origin
  and position; text is both underlined and italic)."""
  def reads(test):
    """The discriminants of a test: left operands of its comparisons and expressions used directly as truth values."""
    out = set()

    def walk(e):
      if isinstance(e, ast.BoolOp):
        for v in e.values:
          walk(v)
      elif isinstance(e, ast.UnaryOp) and isinstance(e.op, ast.Not):
        walk(e.operand)
      elif isinstance(e, ast.Compare):
        l = e.left
        while isinstance(l, ast.Call) and not l.args and isinstance(l.func, ast.Attribute) and False:
          l = l.func.value
        out.add(unparse(l))
      else:
        out.add(unparse(e))
    walk(test)
    return out

  def writes(body):
    out = set()
    for st in body:
      for n in ast.walk(st):
        if isinstance(n, (ast.Assign, ast.AugAssign)):
          for t in (n.targets if isinstance(n, ast.Assign) else [n.target]):
            out.add(unparse(t))
        elif isinstance(n, ast.Call) and isinstance(n.func, ast.Attribute) and n.func.attr in ("set_style", "append", "append_text", "compute") and n.args:
          out.add(unparse(n.func) + "(" + unparse(n.args[0]))
    return out
  n = 0
  for node in own_nodes(f.node):
    if isinstance(node, ast.If) and len(node.orelse) == 1 and isinstance(node.orelse[0], ast.If):
      a, b = node, node.orelse[0]
      ra, rb = reads(a.test), reads(b.test)
      wa, wb = writes(a.body), writes(b.body)
      if not ra or not rb or not wa or not wb:
        continue
      n += 1
      ctx.unit(f.module)
      shared = ra & rb
      independent = not shared and not (wa & wb) and not (ra & {w.split("(")[0] for w in wb}) and not any(isinstance(x, (ast.Return, ast.Raise, ast.Continue, ast.Break)) for st in a.body for x in ast.walk(st))
      ctx.check(not independent, rule, f"{f.qualname}|{short(a.test, 40)} / elif {short(b.test, 40)}", ctx.where(f.module, b),
                "the chained conditions share a subject (alternatives of one discriminant)",
                f"`{short(a.test, 50)}` and `{short(b.test, 50)}` read unrelated state and update different targets ({sorted(wa)[:2]} vs {sorted(wb)[:2]}), but the second is an `elif` of the first: "
                f"when both hold, the second update is skipped")
  return n


def check_stateless_instances(ctx, classes, rule="STATE-instance", setup=("__init__", "__post_init__"), allowed=None):
  """Objects that are applied repeatedly (filters) keep no state between calls: outside the
  constructor no method assigns an instance attribute or mutates a container held by one (directly
  or through a local alias)."""
  n = 0
  for c in classes:
    for m in c.methods.values():
      if m.name in setup:
        continue
      aliases = {}
      for st in own_nodes(m.node):
        if isinstance(st, ast.Assign) and len(st.targets) == 1 and isinstance(st.targets[0], ast.Name) and isinstance(st.value, ast.Attribute) \
            and isinstance(st.value.value, ast.Name) and st.value.value.id == "self":
          aliases[st.targets[0].id] = unparse(st.value)
      for st in own_nodes(m.node):
        what = None
        if isinstance(st, (ast.Assign, ast.AugAssign, ast.AnnAssign)):
          for t in (st.targets if isinstance(st, ast.Assign) else [st.target]):
            if isinstance(t, ast.Attribute) and isinstance(t.value, ast.Name) and t.value.id == "self":
              what = f"assigns {unparse(t)}"
            if isinstance(t, ast.Subscript):
              b = t.value
              if isinstance(b, ast.Attribute) and isinstance(b.value, ast.Name) and b.value.id == "self":
                what = f"stores into {unparse(b)}"
              elif isinstance(b, ast.Name) and b.id in aliases:
                what = f"stores into {aliases[b.id]} (through `{b.id}`)"
        elif isinstance(st, ast.Call) and isinstance(st.func, ast.Attribute) and st.func.attr in MUTATING:
          b = st.func.value
          if isinstance(b, ast.Attribute) and isinstance(b.value, ast.Name) and b.value.id == "self":
            what = f"mutates {unparse(b)}"
          elif isinstance(b, ast.Name) and b.id in aliases:
            what = f"mutates {aliases[b.id]} (through `{b.id}`)"
        if what and allowed and any(k in what for k in allowed):
          ctx.ok(rule, f"{m.qualname}|{short(st, 50)}|allowed", ctx.where(c.module, st), "tabled: " + next(v for k, v in allowed.items() if k in what))
          continue
        if what:
          n += 1
          ctx.unit(c.module)
          ctx.bad(rule, f"{m.qualname}|{short(st, 50)}", ctx.where(c.module, st), f"{m.short} {what}: the object is applied to many documents, and what it remembers from one changes the result for the next")
  return n



def check_fresh_per_iteration(ctx, funcs: typing.Iterable[FuncInfo], rule="FRESH"):
  """`container.push_child(x)` inside a loop, where x is a model element constructed *outside* that
  loop: the second iteration pushes an element that already has a parent, which push_child refuses
  with RuntimeError (or, for registries, overwrites the previous entry)."""
  n = 0
  for f in funcs:
    ctor = {}
    for st in own_nodes(f.node):
      if isinstance(st, ast.Assign) and len(st.targets) == 1 and isinstance(st.targets[0], ast.Name) and isinstance(st.value, ast.Call):
        fn = unparse(st.value.func).split(".")[-1]
        if fn[:1].isupper():
          ctor.setdefault(st.targets[0].id, []).append(st)
    for c in own_nodes(f.node):
      if isinstance(c, ast.Call) and isinstance(c.func, ast.Attribute) and c.func.attr == "push_child" and len(c.args) == 1 and isinstance(c.args[0], ast.Name) and c.args[0].id in ctor:
        v = c.args[0].id
        # innermost loop around the push
        lp = parent(c)
        while lp is not None and lp is not f.node and not isinstance(lp, (ast.For, ast.While)):
          lp = parent(lp)
        if lp is None or lp is f.node:
          continue
        n += 1
        ctx.unit(f.module)
        inside = any(any(x is st for x in ast.walk(lp)) for st in ctor[v])
        # a constructor inside the loop that runs only while the variable is still None (`if v is None: v = Ctor()`), with the
        # None assigned outside the loop, runs in the first iteration only: the object is shared by all iterations
        if inside:
          from .match import enclosing_conditions, is_none_test
          lazy = [st for st in ctor[v] if any(x is st for x in ast.walk(lp))
                  and any(pol and is_none_test(t, lambda e: isinstance(e, ast.Name) and e.id == v) is True for t, pol in enclosing_conditions(st, lp))]
          reset_inside = any(isinstance(st, ast.Assign) and any(isinstance(t, ast.Name) and t.id == v for t in st.targets) and isinstance(st.value, ast.Constant) and st.value.value is None
                             for st in ast.walk(lp))
          if lazy and len(lazy) == len([st for st in ctor[v] if any(x is st for x in ast.walk(lp))]) and not reset_inside:
            inside = False
        # pushing INTO a container created outside is fine; the pushed object itself must be fresh
        ctx.check(inside, rule, f"{f.qualname}|{short(c, 50)}", ctx.where(f.module, c), f"`{v}` is constructed inside the loop",
                  f"`{short(c, 60)}` runs once per iteration of `{short(lp, 40)}` but `{v}` is constructed once, outside the loop: the second iteration pushes an element that already has a parent (RuntimeError)")
  return n


# ---------------------------------------------------------------------------------------
# RAISE-interval: a serialiser that refuses end <= begin must never be handed an interval that is
# empty at its own time resolution
# ---------------------------------------------------------------------------------------

def _rounded(e, name: str) -> typing.Optional[str]:
  """The way `name` is brought to the output's time resolution in e (`round(x, 3)`, `ClockTime.from_seconds(x)...`,
  `int(x * 1000)`): the expression text with the name replaced by a hole; None when e is not such a form of the bare name."""
  if not any(isinstance(n, ast.Name) and n.id == name for n in ast.walk(e)):
    return None
  # the serialiser prints ClockTime.from_seconds(x), which rounds to the nearest millisecond (round(x, 3)); truncation
  # (int / floor of x * 1000) is a different grid: two times that truncate apart can still round together
  ok = False
  for c in ast.walk(e):
    if isinstance(c, ast.Call):
      fn = unparse(c.func).split(".")[-1]
      if fn == "from_seconds":
        ok = True
      if fn == "round" and len(c.args) == 2 and isinstance(c.args[1], ast.Constant) and c.args[1].value == 3:
        ok = True
  if not ok:
    return None
  return unparse(e).replace(name, "_")


def check_interval_resolution(ctx, producer: FuncInfo, refuser: FuncInfo, rule="RAISE-interval"):
  """`refuser` (the cue's to_string) raises when the printed end is not after the printed begin.
  `producer` (add_isd(isd, begin, end)) therefore must not create a cue unless, at the resolution of
  the printed time codes, end > begin (or end is unbounded): on every path to a call that passes the
  interval on, a test that compares the *rounded* end and begin has excluded the empty case."""
  import itertools
  from ..cfg import CFG, fact_holds_at
  from . import match
  ctx.unit(producer.module)
  ps = [p_ for p_ in producer.params if p_ not in ("self", "cls")]
  if len(ps) < 3:
    raise AnalysisError(f"{producer.qualname}: expected parameters (isd, begin, end)")
  b, e = ps[-2], ps[-1]
  refuses = any(isinstance(n, ast.If) and isinstance(n.body[-1], ast.Raise) and match.relation(n.test, match.mentions("_end"), match.mentions("_begin")) in ("<=", "<")
                for n in own_nodes(refuser.node))
  if not refuses:
    ctx.ok(rule, f"{producer.qualname}|the serialiser accepts any interval", ctx.where(refuser.module, refuser.node), f"{refuser.short} does not raise on end <= begin")
    return 0
  sinks = [c for c in own_nodes(producer.node) if isinstance(c, ast.Call) and not unparse(c.func).startswith("LOGGER")
           and any(isinstance(a, ast.Name) and a.id == b for a in c.args) and any(isinstance(a, ast.Name) and a.id == e for a in c.args)]
  if not sinks:
    raise AnalysisError(f"{producer.qualname}: no call passes ({b}, {e}) on")
  cfg = CFG(producer.node)

  def leaf(t):
    nt = match.is_none_test(t, lambda x: isinstance(x, ast.Name) and x.id == e)
    if nt is not None:
      return ("N", nt)
    if isinstance(t, ast.Compare) and len(t.ops) == 1:
      l, r = t.left, t.comparators[0]
      for x, y, flip in ((l, r, False), (r, l, True)):
        sx, sy = _rounded(x, e), _rounded(y, b)
        if sx is not None and sx == sy:
          rel = match.relation(t, lambda z: z is x, lambda z: z is y)
          if rel in ("<=", ">"):
            return ("L", rel == "<=")
    return None

  def establishes(test, pol):
    # whenever `test` has truth value `pol`: end is None, or rounded end > rounded begin
    try:
      for N, L in itertools.product((False, True), repeat=2):
        def val(a, N=N, L=L):
          if a == "N":
            return N
          if N:
            raise match.AtomError(a)
          return L
        try:
          # the tests of the ifs around this one hold with their polarity whenever it is evaluated
          holder = getattr(test, "_parent", None)
          infeasible = False
          for t, p_ in (match.enclosing_conditions(holder, producer.node) if holder is not None else []):
            try:
              if match.eval_bool(t, leaf, val) != p_:
                infeasible = True
            except ValueError:
              pass          # a test about something else: no information
          if infeasible:
            continue
          tv = match.eval_bool(test, leaf, val)
        except match.AtomError:
          return False
        if tv == pol and not (N or not L):
          return False
      return True
    except ValueError:
      return False
  n = 0
  for c in sinks:
    n += 1
    nid = cfg.stmt_node_containing(c)
    ctx.check(fact_holds_at(cfg, nid, establishes), rule, f"{producer.qualname}|{short(c, 60)}", ctx.where(producer.module, c),
              f"reached only when {e} is None or the rounded {e} is after the rounded {b}",
              f"`{short(c, 60)}` creates a cue for an interval that can be empty at the resolution of the printed time codes "
              f"(e.g. {b}=1 s, {e}=1.0004 s): {refuser.short} then raises ValueError and the whole document cannot be written")
  return n


# ---------------------------------------------------------------------------------------
# PURE-query: queries of value classes do not write the object
# ---------------------------------------------------------------------------------------

_QUERY_NAMES = ("to_", "get_", "is_", "has_", "iter_")
_QUERY_DUNDERS = {"__str__", "__repr__", "__eq__", "__ne__", "__hash__", "__len__", "__lt__", "__le__", "__gt__", "__ge__", "__iter__", "__bool__", "__contains__"}


def check_pure_queries(ctx, classes, rule="PURE-query", exempt: typing.Optional[typing.Dict[str, str]] = None, summary=False):
  """A method whose name says it is a query (to_*, get_*, is_*, has_*, iter_*, comparison and
  printing dunders) does not assign an attribute of self: a query that caches or updates state makes
  the answer depend on which queries and updates came before (a stale memo after a later update is
  the typical defect).  exempt: {qualified method name: reason}."""
  exempt = exempt or {}
  n = 0
  if not hasattr(ctx, "_pure_query_done"):
    try:
      ctx._pure_query_done = set()
    except AttributeError:
      pass
  done = getattr(ctx, "_pure_query_done", set())
  for c in classes:
    if c.qualname in done:
      continue
    done.add(c.qualname)
    ctx.unit(c.module)
    for name, m in sorted(c.methods.items()):
      if not (name.startswith(_QUERY_NAMES) or name in _QUERY_DUNDERS):
        continue
      if any(unparse(d).split(".")[-1] in ("setter",) for d in m.node.decorator_list):
        continue
      n += 1
      stores = [t for t in own_nodes(m.node) if isinstance(t, ast.Attribute) and isinstance(t.ctx, (ast.Store, ast.Del)) and isinstance(t.value, ast.Name) and t.value.id in ("self", "cls")]
      key = f"{m.qualname}|a query leaves the object as it is"
      if stores and m.qualname in exempt:
        ctx.ok(rule, key + "|exempt", ctx.where(m.module, stores[0]), "reasoned exception: " + exempt[m.qualname])
        continue
      if summary and not stores:
        continue
      ctx.check(not stores, rule, key, ctx.where(m.module, stores[0] if stores else m.node), "no attribute of self is assigned",
                f"{m.short} is a query but assigns `{unparse(stores[0]) if stores else ''}`: state written by a query (a memo, a cursor) goes stale when the object is updated "
                "afterwards, so the answer depends on the history of calls")
  if summary:
    ctx.ok(rule, f"{len(list(classes))} classes|queries leave the object as it is", "src/main/python/ttconv", f"{n} query methods scanned")
  return n


# ---------------------------------------------------------------------------------------
# PAIR-default-end: every cue of the unbounded last interval receives an end
# ---------------------------------------------------------------------------------------

def check_default_end(ctx, cls, rule="PAIR-default-end"):
  """The last ISD of a sequence has no end; the writer's finish() gives its cues `begin + 10 s`.
  One ISD yields one cue only if regions and paragraphs are merged unconditionally; where a merging
  filter is applied under a configuration test (WebVTT with line_position), the last ISD can yield
  several cues, and finish() must then treat every cue that has no end - a fix-up of the last list
  entry alone leaves the others without an end, which the serialiser refuses (ValueError)."""
  from .match import enclosing_conditions
  ctx.unit(cls.module)
  fin = cls.methods.get("finish")
  if fin is None:
    raise AnalysisError(f"{cls.qualname}: finish() not found")
  merged = {}
  for filt in ("RegionsMergingISDFilter", "ParagraphsMergingISDFilter"):
    sites = [c for c in ast.walk(cls.node) if isinstance(c, ast.Call) and unparse(c.func).split(".")[-1] == filt]
    def conditional(c):
      p = parent(c)
      while p is not None and p is not cls.node:
        if isinstance(p, (ast.If, ast.IfExp, ast.For, ast.While)):
          return True
        p = parent(p)
      return False
    merged[filt] = bool(sites) and not all(conditional(c) for c in sites)
  merged_always = all(merged.values())
  ends = [c for c in own_nodes(fin.node) if isinstance(c, ast.Call) and isinstance(c.func, ast.Attribute) and c.func.attr == "set_end"]
  if not ends:
    raise AnalysisError(f"{fin.qualname}: no set_end call found")

  def in_loop_over_all(c):
    p = parent(c)
    while p is not None and p is not fin.node:
      if isinstance(p, ast.For) and not any(isinstance(x, ast.Subscript) for x in ast.walk(p.iter)):
        return True          # a loop over the whole list (not over an index / a slice of it)
      p = parent(p)
    return False
  finish_all = all(in_loop_over_all(c) for c in ends)
  ctx.check(merged_always or finish_all, rule, f"{fin.qualname}|every cue of the unbounded last interval gets an end", ctx.where(fin.module, ends[0]),
            "regions and paragraphs are always merged into one cue" if merged_always else "finish() walks every cue that has no end",
            f"{cls.name} applies {[k for k, v in merged.items() if not v]} only under a configuration test, so the last (unbounded) interval can produce several cues, "
            "but finish() gives a default end to the last list entry only: the other cues keep end=None and to_string raises ValueError "
            "(two regions active to the end of the document, WebVTT with line_position)")


def mutated_field_names(ix) -> typing.Set[str]:
  """Attribute names that some function of the package mutates in place as a container
  (`x.f.append(..)`, `x.f[k] = v`, `del x.f[k]`)."""
  cached = getattr(ix, "_mutated_field_names", None)
  if cached is not None:
    return cached
  out = set()
  for m in ix.modules.values():
    for n in ast.walk(m.tree):
      if isinstance(n, ast.Call) and isinstance(n.func, ast.Attribute) and n.func.attr in MUTATING and isinstance(n.func.value, ast.Attribute):
        out.add(n.func.value.attr)
      elif isinstance(n, (ast.Assign, ast.AugAssign, ast.Delete)):
        for t in (n.targets if isinstance(n, (ast.Assign, ast.Delete)) else [n.target]):
          if isinstance(t, ast.Subscript) and isinstance(t.value, ast.Attribute):
            out.add(t.value.attr)
  ix._mutated_field_names = out
  return out


def check_no_shared_containers(ctx, funcs: typing.Iterable[FuncInfo], rule="STATE-share"):
  """`a.f = b.g` (directly or through single-assignment locals) where both f and g are fields the
  package mutates in place: from then on the two objects share one container, and an in-place
  update meant for one of them (a merged style, an appended line) also changes the other.  A copy
  (`dict(b.g)`, `list(b.g)`, `b.g.copy()`, a comprehension) is what every such site of the repository uses."""
  from . import match
  ix = ctx.ix
  fields = mutated_field_names(ix)
  n = 0
  for f in funcs:
    for st in own_nodes(f.node):
      if not (isinstance(st, ast.Assign) and len(st.targets) == 1 and isinstance(st.targets[0], ast.Attribute) and st.targets[0].attr in fields):
        continue
      n += 1
      v = st.value
      hops = 0
      defs = match.local_defs(f.node)
      while isinstance(v, ast.Name) and hops < 4:
        d = defs.get(v.id, [])
        if len(d) != 1 or v.id in f.params:
          break
        v = d[0]
        hops += 1
      if isinstance(v, ast.Attribute) and v.attr in fields and unparse(v.value) != unparse(st.targets[0].value):
        ctx.unit(f.module)
        ctx.bad(rule, f"{f.qualname}|{unparse(st.targets[0])} = {unparse(v)}", ctx.where(f.module, st),
                f"`{short(st, 70)}` stores the container `{unparse(v)}` of another object without copying it; `{st.targets[0].attr}` is updated in place elsewhere, "
                f"so updates meant for `{unparse(st.targets[0].value)}` also change `{unparse(v.value)}`")
  return n


def check_item_sources(ctx, funcs: typing.Iterable[FuncInfo], rule="ITEM-source"):
  """Nested loops that build one object per inner item (`for line in lines: for text in line: new = T(text..);
  new.add(..)`): every value put into the per-item object derives from that item, from constants or from
  values that do not vary with any of the loops.  A value that varies with the *outer* loop only (taken from
  the container, e.g. its current / last item) and is put into every inner item gives all items of one
  container the same value where each had its own."""
  def names(e):
    return {n.id for n in ast.walk(e) if isinstance(n, ast.Name)}
  n = 0
  for f in funcs:
    deps: typing.Dict[str, typing.Set[str]] = {}
    for st in own_nodes(f.node):
      if isinstance(st, ast.Assign):
        for tg in st.targets:
          for x in names(tg):
            deps.setdefault(x, set()).update(names(st.value))
      elif isinstance(st, ast.AnnAssign) and st.value is not None:
        for x in names(st.target):
          deps.setdefault(x, set()).update(names(st.value))
      elif isinstance(st, (ast.For, ast.comprehension)):
        for x in names(st.target):
          deps.setdefault(x, set()).update(names(st.iter))

    def closure(ns):
      seen, todo = set(), list(ns)
      while todo:
        x = todo.pop()
        if x not in seen:
          seen.add(x)
          todo.extend(deps.get(x, ()))
      return seen
    created = []

    def visit(node, loops):
      for ch in ast.iter_child_nodes(node):
        if isinstance(ch, (ast.FunctionDef, ast.AsyncFunctionDef, ast.Lambda, ast.ClassDef)):
          continue
        if isinstance(ch, ast.For):
          visit(ch, loops + [ch])
          continue
        if isinstance(ch, ast.Assign) and len(loops) > 1 and len(ch.targets) == 1 and isinstance(ch.targets[0], ast.Name) and isinstance(ch.value, ast.Call):
          created.append((ch.targets[0].id, loops[-1], loops[:-1]))
        visit(ch, loops)
    visit(f.node, [])
    for (nm, loop, outer) in created:
      inner_vars = names(loop.target)
      outer_vars = set().union(*[names(l.target) for l in outer])
      for c in ast.walk(loop):
        if not (isinstance(c, ast.Call) and isinstance(c.func, ast.Attribute) and isinstance(c.func.value, ast.Name) and c.func.value.id == nm and c.args):
          continue
        n += 1
        for a in c.args:
          ns = names(a)
          if not ns:
            continue
          cl = closure(ns)
          if not (cl & inner_vars) and (cl & outer_vars):
            ctx.unit(f.module)
            ctx.bad(rule, f"{f.qualname}|{unparse(c)}", ctx.where(f.module, c),
                    f"`{nm}` is built once per `{unparse(loop.target)}`, but `{unparse(a)}` put into it by `{short(c, 60)}` varies only with the enclosing loop over "
                    f"`{', '.join(sorted(outer_vars))}`: every item of one container receives the same value instead of its own")
            break
  return n


def check_find_or_create(ctx, funcs: typing.Iterable[FuncInfo], rule="FIND-key"):
  """`found = None; for r in existing: <filters> found = r; break;  if found is None: found = New(..)`:
  every parameter that shapes the newly created object is also compared by the search filters.  A
  parameter that is written into a new object but not compared lets the search return an existing object
  that differs in exactly that respect."""
  def names(e):
    return {n.id for n in ast.walk(e) if isinstance(n, ast.Name)}
  n = 0
  for f in funcs:
    params = set(f.params)
    for loop in own_nodes(f.node):
      if not (isinstance(loop, ast.For) and isinstance(loop.target, ast.Name)):
        continue
      lv = loop.target.id
      found = None
      for st in own_nodes(loop):
        if isinstance(st, ast.Assign) and len(st.targets) == 1 and isinstance(st.targets[0], ast.Name) and isinstance(st.value, ast.Name) and st.value.id == lv:
          found = st.targets[0].id
      if found is None:
        continue
      create = None
      for st in own_nodes(f.node):
        if isinstance(st, ast.If) and st.lineno > loop.lineno:
          from . import match
          if match.is_none_test(st.test, lambda e, _n=found: isinstance(e, ast.Name) and e.id == _n) is True:
            if any(isinstance(x, ast.Assign) and isinstance(x.targets[0], ast.Name) and x.targets[0].id == found and isinstance(x.value, ast.Call) for x in st.body):
              create = st
      if create is None:
        continue
      # local dependencies inside the loop (r_origin <- r ...)
      deps: typing.Dict[str, typing.Set[str]] = {}
      for st in own_nodes(loop):
        tg = st.targets[0] if isinstance(st, ast.Assign) and len(st.targets) == 1 else (st.target if isinstance(st, ast.AnnAssign) and st.value is not None else None)
        if isinstance(tg, ast.Name):
          deps.setdefault(tg.id, set()).update(names(st.value))
      compared = set()
      for st in own_nodes(loop):
        if isinstance(st, ast.If):
          compared |= names(st.test)
      todo = list(compared)
      while todo:
        x = todo.pop()
        for y in deps.get(x, ()):
          if y not in compared:
            compared.add(y)
            todo.append(y)
      source = names(loop.iter)
      src_defs = match.local_defs(f.node)
      for s_ in list(source):
        for d in src_defs.get(s_, []):
          source |= names(d)
      shaping = set()
      for x in create.body:
        for c in ast.walk(x):
          if isinstance(c, ast.Call):
            for a in list(c.args) + [k.value for k in c.keywords]:
              shaping |= names(a) & params
      shaping -= source
      ctx.unit(f.module)
      for p in sorted(shaping):
        n += 1
        ctx.check(p in compared, rule, f"{f.qualname}|{p}", ctx.where(f.module, loop),
                  f"`{p}` shapes the created object and is compared by the search over `{unparse(loop.iter)}`",
                  f"`{p}` is written into the object created when nothing is found, but the search over `{unparse(loop.iter)}` never compares it: "
                  f"an existing object that differs in `{p}` is returned as a match")
  return n


def check_feed_close(ctx, funcs: typing.Iterable[FuncInfo], rule="PAIR-close"):
  """html.parser.HTMLParser buffers the tail of what it is fed (text that might be the beginning of a
  character reference or tag) and hands it to the handlers only on close().  For every local that holds an
  instance of an HTMLParser subclass of the package: every non-exceptional path from a feed() to the function's
  exit (or to the next re-binding of the local) passes through close() on the same local."""
  ix = ctx.ix
  n = 0
  for f in funcs:
    holders = {}
    for st in own_nodes(f.node):
      if isinstance(st, ast.Assign) and len(st.targets) == 1 and isinstance(st.targets[0], ast.Name) and isinstance(st.value, ast.Call):
        r = ix.resolve(f.module, st.value.func, cls=f.cls, func=f)
        if isinstance(r, ClassInfo) and any(b.split(".")[-1] == "HTMLParser" for c in ix.mro(r) for b in c.ext_bases):
          holders.setdefault(st.targets[0].id, []).append(st)
    # feed() on a parser that is never bound to a name cannot be followed by close() at all
    for c in own_nodes(f.node):
      if isinstance(c, ast.Call) and isinstance(c.func, ast.Attribute) and c.func.attr == "feed" and isinstance(c.func.value, ast.Call):
        r = ix.resolve(f.module, c.func.value.func, cls=f.cls, func=f)
        if isinstance(r, ClassInfo) and any(b.split(".")[-1] == "HTMLParser" for k in ix.mro(r) for b in k.ext_bases):
          n += 1
          ctx.bad(rule, f"{f.qualname}|{r.name}(...).feed(...) is followed by close()", ctx.where(f.module, c),
                  f"`{short(c, 50)}` feeds a parser that is not kept, so close() is never called on it: HTMLParser holds back the tail of the text (anything after a trailing `&` or `<`) "
                  f"until close(), so that text never reaches the handlers and is lost")
    if not holders:
      continue
    ctx.unit(f.module)
    cfg = CFG(f.node)
    for var, binds in holders.items():
      feeds = [c for c in own_nodes(f.node) if isinstance(c, ast.Call) and isinstance(c.func, ast.Attribute) and c.func.attr == "feed" and unparse(c.func.value) == var]
      closes = {cfg.stmt_node_containing(c) for c in own_nodes(f.node) if isinstance(c, ast.Call) and isinstance(c.func, ast.Attribute) and c.func.attr == "close" and unparse(c.func.value) == var}
      rebinds = {cfg.node_of(b) for b in binds}
      for fd in feeds:
        n += 1
        src = cfg.stmt_node_containing(fd)
        leak = cfg.paths_avoiding(src, cfg.exit, closes, skip_exc=True) or any(rb is not None and rb != src and cfg.paths_avoiding(src, rb, closes, skip_exc=True) for rb in rebinds)
        ctx.check(not leak, rule, f"{f.qualname}|{var}.feed(...) is followed by {var}.close()", ctx.where(f.module, fd),
                  f"every path from `{short(fd, 40)}` passes `{var}.close()` before `{var}` is dropped",
                  f"`{short(fd, 40)}` is not followed by `{var}.close()` on every path: HTMLParser holds back the tail of the text (anything after a trailing `&` or `<`) "
                  f"until close(), so that text never reaches the handlers and is lost")
  return n


def check_raw_part_reads(ctx, funcs: typing.Iterable[FuncInfo], rule="ACC-raw"):
  """`self.acc += part.F...` accumulates a value that arrives in parts (extension blocks).  Everything that is
  computed from the value afterwards must read the accumulator; another read of `part.F` in the same function sees
  only the last part.  Reported: any read of the part's field outside the accumulating statement."""
  n = 0
  for f in funcs:
    accs = []
    for st in own_nodes(f.node):
      if isinstance(st, ast.AugAssign) and isinstance(st.op, ast.Add) and isinstance(st.target, ast.Attribute) and unparse(st.target.value) == "self":
        for x in ast.walk(st.value):
          if isinstance(x, ast.Attribute) and isinstance(x.value, ast.Name) and x.value.id not in ("self", "cls"):
            accs.append((st, unparse(st.target), unparse(x)))
    for (st, acc, part) in accs:
      n += 1
      others = [x for x in own_nodes(f.node) if isinstance(x, ast.Attribute) and unparse(x) == part and not any(y is x for y in ast.walk(st))]
      ctx.unit(f.module)
      ctx.check(not others, rule, f"{f.qualname}|{part} is read only to extend {acc}", ctx.where(f.module, others[0] if others else st),
                f"`{part}` feeds `{acc}` and is not read elsewhere",
                f"`{part}` is one part of a value that `{short(st, 50)}` accumulates over several calls, but line {others[0].lineno if others else 0} reads `{part}` again: "
                f"it sees the last part only where the accumulated `{acc}` is meant")
  return n
