"""NUL: nullness for a hand-confirmed table of None sources.

Every dereference (attribute access / subscript) of a value that comes from a tabled source of
``None`` must be dominated by a guard: ``x is not None`` / ``x is None`` on the exiting branch /
truthiness test / isinstance test / short-circuit ``and`` / conditional expression.  The
analysis is path-sensitive on branch edges of the statement CFG and expression-sensitive for
short-circuit operators.  Values from untabled expressions are assumed non-null (a general
nullness analysis would need dozens of invariants; see DESIGN.md section 9).
"""
from __future__ import annotations

import ast
import typing

from ..cfg import CFG, forward, header_exprs
from ..core import AnalysisError, ClassInfo, FuncInfo, Index, own_nodes, parent, short, unparse


def path_of(e) -> typing.Optional[str]:
  """Access-path text for names, attribute chains and argument-less getter calls on them."""
  if isinstance(e, ast.Name):
    return e.id
  if isinstance(e, ast.Attribute):
    b = path_of(e.value)
    return f"{b}.{e.attr}" if b is not None else None
  if isinstance(e, ast.Call) and isinstance(e.func, ast.Attribute) and not e.args and not e.keywords:
    b = path_of(e.func.value)
    return f"{b}.{e.func.attr}()" if b is not None else None
  return None


IMPLICATIONS: typing.List[typing.Tuple[str, bool, typing.Set[str]]] = []
"""(test text, polarity, implied non-null paths): class invariants confirmed by a supporting rule
of the property that installs them (see props/c11.py INV-ruby)."""


def facts_from_test(e, pol: bool) -> typing.Set[str]:
  """Paths known to be non-None when test `e` evaluates to `pol`."""
  for (text, p, implied) in IMPLICATIONS:
    if p == pol and unparse(e) == text:
      return set(implied) | _facts_from_test(e, pol)
  return _facts_from_test(e, pol)


def _facts_from_test(e, pol: bool) -> typing.Set[str]:
  if isinstance(e, ast.UnaryOp) and isinstance(e.op, ast.Not):
    return facts_from_test(e.operand, not pol)
  if isinstance(e, ast.BoolOp):
    sets = [facts_from_test(v, pol) for v in e.values]
    if (isinstance(e.op, ast.And) and pol) or (isinstance(e.op, ast.Or) and not pol):
      out = set()
      for s in sets:
        out |= s
      return out
    out = sets[0]
    for s in sets[1:]:
      out = out & s
    return out
  if isinstance(e, ast.Compare) and len(e.ops) == 1:
    op, l, r = e.ops[0], e.left, e.comparators[0]
    is_none = lambda x: isinstance(x, ast.Constant) and x.value is None
    if is_none(r) or is_none(l):
      other = l if is_none(r) else r
      p = path_of(other)
      if p is not None:
        if isinstance(op, (ast.IsNot, ast.NotEq)) and pol:
          return {p}
        if isinstance(op, (ast.Is, ast.Eq)) and not pol:
          return {p}
      return set()
    # x == <non-None constant> / x is <Enum member> / x in (...) true => x is not None
    if pol and isinstance(op, (ast.Eq, ast.Is, ast.In, ast.Lt, ast.LtE, ast.Gt, ast.GtE)):
      out = set()
      for side, other in ((l, r), (r, l)):
        p = path_of(side)
        if p is not None and not is_none(other) and isinstance(op, (ast.Eq, ast.Is, ast.In, ast.Lt, ast.LtE, ast.Gt, ast.GtE)):
          if isinstance(op, ast.In) and side is r:
            continue
          if isinstance(other, (ast.Constant, ast.Attribute, ast.Tuple, ast.List, ast.Set, ast.Call)) or isinstance(op, (ast.Lt, ast.LtE, ast.Gt, ast.GtE)):
            out.add(p)
      return out
    return set()
  if isinstance(e, ast.Call) and isinstance(e.func, ast.Name) and e.func.id == "isinstance" and len(e.args) == 2 and pol:
    p = path_of(e.args[0])
    return {p} if p is not None else set()
  if pol:
    p = path_of(e)
    if p is not None:
      return {p}
    # truthy result of a method call on x implies x was dereferenced OK; no fact
  return set()


class NullSources:
  """Configuration: which expressions produce None."""

  def __init__(self, call_names=(), regex_methods=False, iter_funcs=(), fields=(), getter_paths=(), attr_suffixes=()):
    self.call_names = set(call_names)          # x = recv.<name>(...)  -> x nullable
    self.regex_methods = regex_methods          # x = <REGEX>.match/fullmatch/search(...) -> nullable
    self.iter_funcs = set(iter_funcs)           # for x in <f>(...) -> x nullable
    self.fields = set(fields)                   # self.<field> nullable (path 'self.<field>')
    self.getter_paths = set(getter_paths)       # '<recv>.get_body()' used directly as a path
    self.attr_suffixes = dict(attr_suffixes) if isinstance(attr_suffixes, dict) else {x: "optional field" for x in attr_suffixes}   # '<anything>.<name>' nullable

  def is_nullable_expr(self, e) -> typing.Optional[str]:
    if isinstance(e, ast.Call) and isinstance(e.func, ast.Attribute):
      if e.func.attr in self.call_names:
        return f"result of {e.func.attr}()"
      if self.regex_methods and e.func.attr in ("match", "fullmatch", "search"):
        recv = unparse(e.func.value)
        if recv.split(".")[-1].isupper() or recv.split(".")[-1].endswith(("_RE", "_re", "regex", "_PATTERN")) or recv in ("re",):
          return f"result of {recv}.{e.func.attr}()"
    if isinstance(e, ast.Call) and isinstance(e.func, ast.Name) and e.func.id in self.call_names:
      return f"result of {e.func.id}()"
    if isinstance(e, ast.IfExp):
      return self.is_nullable_expr(e.body) or self.is_nullable_expr(e.orelse) or \
        ("None branch" if any(isinstance(x, ast.Constant) and x.value is None for x in (e.body, e.orelse)) else None)
    return None


def _tracked_locals(f: FuncInfo, src: NullSources) -> typing.Dict[str, str]:
  out = {}
  for n in own_nodes(f.node):
    if isinstance(n, ast.Assign) and len(n.targets) == 1 and isinstance(n.targets[0], ast.Name):
      why = src.is_nullable_expr(n.value)
      if why:
        out[n.targets[0].id] = why
    elif isinstance(n, ast.For):
      it = n.iter
      inner = it
      if isinstance(it, ast.Call) and isinstance(it.func, ast.Name) and it.func.id == "enumerate" and it.args:
        inner = it.args[0]
      if isinstance(inner, ast.Call) and isinstance(inner.func, ast.Name) and inner.func.id in src.iter_funcs:
        tgt = n.target
        if inner is not it and isinstance(tgt, ast.Tuple) and len(tgt.elts) == 2:
          tgt = tgt.elts[1]
        if isinstance(tgt, ast.Name):
          out[tgt.id] = f"item of {inner.func.id}(...) (None-terminated)"
  return out


def _derefs(expr, tracked: typing.Callable[[str], typing.Optional[str]], facts: typing.Set[str], out: list):
  """Collect (node, path, why) for unguarded dereferences in `expr` given non-null `facts`."""
  def walk(e, fs):
    if isinstance(e, ast.Lambda):
      return
    if isinstance(e, ast.BoolOp):
      cur = set(fs)
      for v in e.values:
        walk(v, cur)
        cur = cur | facts_from_test(v, isinstance(e.op, ast.And))
      return
    if isinstance(e, ast.IfExp):
      walk(e.test, fs)
      walk(e.body, fs | facts_from_test(e.test, True))
      walk(e.orelse, fs | facts_from_test(e.test, False))
      return
    if isinstance(e, (ast.ListComp, ast.SetComp, ast.GeneratorExp, ast.DictComp)):
      cur = set(fs)
      for g in e.generators:
        walk(g.iter, cur)
        for c in g.ifs:
          walk(c, cur)
          cur = cur | facts_from_test(c, True)
      for part in ([e.key, e.value] if isinstance(e, ast.DictComp) else [e.elt]):
        walk(part, cur)
      return
    if isinstance(e, (ast.Attribute, ast.Subscript)) :
      base = e.value
      p = path_of(base)
      if p is not None:
        why = tracked(p)
        if why and p not in fs:
          out.append((e, p, why))
    # arithmetic / ordering on a value that may be None raises TypeError
    operands = []
    if isinstance(e, ast.BinOp) and isinstance(e.op, (ast.Add, ast.Sub, ast.Mult, ast.Div, ast.FloorDiv, ast.Mod)):
      operands = [e.left, e.right]
    elif isinstance(e, ast.Compare) and any(isinstance(o, (ast.Lt, ast.LtE, ast.Gt, ast.GtE)) for o in e.ops):
      operands = [e.left] + list(e.comparators)
    elif isinstance(e, ast.UnaryOp) and isinstance(e.op, ast.USub):
      operands = [e.operand]
    for o in operands:
      p = path_of(o)
      if p is not None and not p.endswith(")"):
        why = tracked(p)
        if why and p not in fs:
          out.append((e, p, why + "; used in arithmetic / ordering"))
    for ch in ast.iter_child_nodes(e):
      if isinstance(ch, ast.expr) or isinstance(ch, (ast.keyword, ast.comprehension, ast.Starred)):
        walk(ch, fs)
      elif isinstance(ch, ast.stmt):
        pass
  walk(expr, set(facts))


def _may_assign(ix, cls, mname, field, seen) -> bool:
  """May calling self.<mname>() re-bind self.<field>?  (the method, or a method of self it calls, assigns it;
  unknown methods are assumed to)"""
  if cls is None or mname is None:
    return True
  m = ix.lookup_method(cls, mname)
  if m is None:
    return False      # a callable held in an attribute (not a method of the class): it has no access to self
  if (m.qualname, field) in seen:
    return False
  seen.add((m.qualname, field))
  for n in own_nodes(m.node):
    if isinstance(n, (ast.Assign, ast.AugAssign, ast.AnnAssign)):
      for t in (n.targets if isinstance(n, ast.Assign) else [n.target]):
        for x in ast.walk(t):
          if isinstance(x, ast.Attribute) and x.attr == field and isinstance(x.value, ast.Name) and x.value.id == "self":
            return True
    if isinstance(n, ast.Call) and isinstance(n.func, ast.Attribute) and isinstance(n.func.value, ast.Name) and n.func.value.id == "self":
      if _may_assign(ix, cls, n.func.attr, field, seen):
        return True
  return False


def check_sources(ctx, funcs: typing.Iterable[FuncInfo], src: NullSources, rule="NUL"):
  n_tracked = 0
  for f in funcs:
    locals_ = _tracked_locals(f, src)
    field_paths = {f"self.{x}": f"field {x} is None outside its active phase" for x in src.fields}
    text = unparse(f.node)
    uses_getter = any(g.split(".")[-1] in text for g in src.getter_paths)
    uses_field = any(("self." + x) in text for x in src.fields) or any(("." + x) in text for x in src.attr_suffixes)
    if not locals_ and not uses_getter and not uses_field:
      continue
    ctx.unit(f.module)
    cfg = CFG(f.node)

    def tracked(p: str) -> typing.Optional[str]:
      if p in locals_:
        return locals_[p]
      if p in field_paths:
        return field_paths[p]
      for g in src.getter_paths:
        if p.endswith("." + g) or p == g:
          return f"{g} may return None"
      last = p.rsplit(".", 1)[-1]
      if "." in p and last in src.attr_suffixes:
        return src.attr_suffixes[last]
      return None

    def kill(st: set, target_path: str):
      for p in list(st):
        if p == target_path or p.startswith(target_path + ".") or p.startswith(target_path + "("):
          st.discard(p)

    def transfer(node, state):
      st = set(state)
      a = node.ast
      if node.kind == "stmt" and a is not None:
        # calls on self may rewrite self.<field>
        for n in ast.walk(a) if not isinstance(a, (ast.FunctionDef, ast.ClassDef)) else []:
          if isinstance(n, ast.Call):
            cp = path_of(n.func.value) if isinstance(n.func, ast.Attribute) else None
            name = n.func.attr if isinstance(n.func, ast.Attribute) else None
            if cp == "self":
              for p in list(st):
                if p.startswith("self.") and _may_assign(ctx.ix, f.cls, name, p.split(".")[1].split("(")[0], set()):
                  st.discard(p)
            if name is not None and name.startswith(("set_", "remove", "put_", "push_")):
              # a setter on recv may invalidate getter facts on recv
              for p in list(st):
                if cp is not None and p.startswith(cp + ".") and p.endswith("()"):
                  st.discard(p)
        if isinstance(a, (ast.Assign, ast.AnnAssign, ast.AugAssign)):
          targets = a.targets if isinstance(a, ast.Assign) else [a.target]
          value = a.value
          for t in targets:
            for el in ([t] if not isinstance(t, (ast.Tuple, ast.List)) else t.elts):
              tp = path_of(el)
              if tp is None:
                continue
              kill(st, tp)
              if value is not None and not isinstance(t, (ast.Tuple, ast.List)):
                nullable = src.is_nullable_expr(value) or (isinstance(value, ast.Constant) and value.value is None)
                vp = path_of(value)
                if vp is not None and tracked(vp) and vp not in state:
                  nullable = True
                if not nullable:
                  st.add(tp)
      return frozenset(st)

    def edge(node, lab, sin, sout):
      if isinstance(lab, tuple):
        if lab[0] == "cond":
          return frozenset(set(sout) | facts_from_test(lab[1], lab[2]))
        if lab[0] == "exc":
          return sin
        if lab[0] == "iter":
          st = set(sout)
          for nm in ast.walk(node.ast.target):
            if isinstance(nm, ast.Name):
              kill(st, nm.id)
              if lab[2] and nm.id not in locals_:
                st.add(nm.id)
          return frozenset(st)
      return sout

    inn = forward(cfg, frozenset(), transfer, lambda a, b: a & b, edge)
    seen = set()
    any_tracked = False
    for nid, state in inn.items():
      node = cfg.nodes[nid]
      if node.ast is None:
        continue
      for e in header_exprs(node):
        if isinstance(e, (ast.FunctionDef, ast.ClassDef)):
          continue
        found = []
        if isinstance(e, ast.stmt):
          # evaluate sub-expressions of the simple statement
          for ch in ast.iter_child_nodes(e):
            if isinstance(ch, ast.expr):
              _derefs(ch, tracked, set(state), found)
            elif isinstance(ch, (ast.keyword,)):
              _derefs(ch.value, tracked, set(state), found)
        else:
          _derefs(e, tracked, set(state), found)
        for (n, p, why) in found:
          k = (p, getattr(n, "lineno", 0), unparse(n))
          if k in seen:
            continue
          seen.add(k)
          ctx.bad(rule, f"{f.qualname}|{short(n, 80)}", ctx.where(f.module, n),
                  f"`{p}` can be None here ({why}) and is dereferenced without a dominating None guard: "
                  "AttributeError / TypeError on that input")
    # count tracked derefs that were fine
    n_here = 0
    for n in own_nodes(f.node):
      if isinstance(n, (ast.Attribute, ast.Subscript)):
        p = path_of(n.value)
        if p is not None and tracked(p):
          n_here += 1
    n_tracked += n_here
    if n_here and not seen:
      ctx.ok(rule, f"{f.qualname}|<{n_here} guarded dereferences>", ctx.where(f.module, f.node),
             f"all {n_here} dereferences of tabled nullable values are guarded")
    elif n_here:
      ok_n = n_here - len(seen)
      if ok_n > 0:
        ctx.ok(rule, f"{f.qualname}|<{ok_n} guarded dereferences>", ctx.where(f.module, f.node), "guarded")
  return n_tracked


# ---------------------------------------------------------------------------------------

def check_parent_walk(ctx, classes: typing.Iterable[ClassInfo], rule="NUL-parent", attr="parent", root_kind="P"):
  """Parser classes keep an insertion point `self.parent` that is always the paragraph or a
  descendant of it.  Every store  self.parent = self.parent.parent()  (a pop) must happen only
  when the insertion point is known to be strictly below the paragraph:
    * on the false edge of isinstance(self.parent, <P>) (the function exits on the true edge), or
    * on the true edge of isinstance(self.parent, K...) where no K may be a child of the
      paragraph's own kind (so one more pop is still inside the paragraph).
  """
  from .dsp import ContentModel
  ix = ctx.ix
  cm = ContentModel(ix)
  n = 0
  selfpath = f"self.{attr}"
  pop_text = f"self.{attr}.{attr}()" if False else f"{selfpath}.parent()"
  for c in classes:
    for m in c.methods.values():
      pops = [st for st in own_nodes(m.node) if isinstance(st, ast.Assign) and len(st.targets) == 1
              and unparse(st.targets[0]) == selfpath and unparse(st.value) == pop_text]
      if not pops:
        continue
      ctx.unit(m.module)
      cfg = CFG(m.node)

      def kinds_of(spec):
        elts = spec.elts if isinstance(spec, (ast.Tuple, ast.List)) else [spec]
        out = []
        for e in elts:
          r = ix.resolve(m.module, e, cls=c, func=m)
          out.append(r.name if isinstance(r, ClassInfo) else None)
        return out

      def transfer(node, state):
        depth = state
        a = node.ast
        if node.kind == "stmt" and isinstance(a, ast.Assign) and len(a.targets) == 1 and unparse(a.targets[0]) == selfpath:
          if unparse(a.value) == pop_text:
            return max(depth - 1, 0)
          return 1  # a freshly created child pushed under the insertion point: below the paragraph
        return depth

      def edge(node, lab, sin, sout):
        if isinstance(lab, tuple) and lab[0] == "cond":
          t = lab[1]
          pol = lab[2]
          if isinstance(t, ast.UnaryOp) and isinstance(t.op, ast.Not):
            t, pol = t.operand, not pol
          if isinstance(t, ast.Call) and isinstance(t.func, ast.Name) and t.func.id == "isinstance" and len(t.args) == 2 \
              and unparse(t.args[0]) == selfpath:
            ks = kinds_of(t.args[1])
            if not pol and ks == [root_kind]:
              return max(sout, 1)
            if pol and all(k is not None and k != root_kind and k not in cm.allowed.get(root_kind, set()) for k in ks):
              return max(sout, 2)
            if pol and all(k is not None and k != root_kind for k in ks):
              return max(sout, 1)
        if isinstance(lab, tuple) and lab[0] == "exc":
          return sin
        return sout

      inn = forward(cfg, 0, transfer, min, edge)
      for st in pops:
        nid = cfg.node_of(st)
        n += 1
        depth = inn.get(nid)
        key = f"{m.qualname}|{unparse(st)}@{pops.index(st)}"
        if depth is None:
          ctx.ok(rule, key, ctx.where(m.module, st), "unreachable")
          continue
        ctx.check(depth >= 1, rule, key, ctx.where(m.module, st),
                  f"pop happens only strictly below the paragraph (known depth >= {depth})",
                  f"`{unparse(st)}` can run while the insertion point is the paragraph itself (e.g. an unmatched end tag): "
                  "the parser then points at the div or at None, and the next text or tag raises TypeError / AttributeError")
  return n


# ---------------------------------------------------------------------------------------
# NUL-htmlattr: attribute values delivered by html.parser may be None
# ---------------------------------------------------------------------------------------

def check_html_attr_values(ctx, classes, rule="NUL-htmlattr"):
  """html.parser.HTMLParser.handle_starttag(tag, attrs) receives attrs as (name, value) pairs whose
  value is None for an attribute written without a value (`<font color>`).  In every subclass, a
  value component that is passed to a call or dereferenced must be known not to be None there
  (a test on the same expression holds on every path to the use)."""
  from ..cfg import CFG, fact_holds_at
  from .match import is_none_test
  n = 0
  for c in classes:
    if not any(unparse(b).split(".")[-1] == "HTMLParser" for b in c.node.bases):
      continue
    m = c.methods.get("handle_starttag") or c.methods.get("handle_startendtag")
    if m is None:
      continue
    ctx.unit(c.module)
    ps = [p_ for p_ in m.params if p_ != "self"]
    if len(ps) < 2:
      continue
    attrs = ps[1]
    # expressions that denote a value component: <item>[1] for loop items over attrs, the 2nd name of `for k, v in attrs`
    items, values = set(), set()
    for lp in own_nodes(m.node):
      gens = [lp] if isinstance(lp, ast.For) else (lp.generators if isinstance(lp, (ast.ListComp, ast.GeneratorExp, ast.SetComp, ast.DictComp)) else [])
      for g in gens:
        if isinstance(g.iter, ast.Name) and g.iter.id == attrs:
          if isinstance(g.target, ast.Name):
            items.add(g.target.id)
          elif isinstance(g.target, ast.Tuple) and len(g.target.elts) == 2 and isinstance(g.target.elts[1], ast.Name):
            values.add(g.target.elts[1].id)

    def is_value(e):
      if isinstance(e, ast.Name) and e.id in values:
        return True
      return isinstance(e, ast.Subscript) and isinstance(e.value, ast.Name) and e.value.id in items and isinstance(e.slice, ast.Constant) and e.slice.value == 1
    cfg = CFG(m.node)
    for node in own_nodes(m.node):
      uses = []
      if isinstance(node, ast.Call):
        uses += [a for a in node.args if is_value(a)]
        if isinstance(node.func, ast.Attribute) and is_value(node.func.value):
          uses.append(node.func.value)
      for u in uses:
        n += 1
        txt = unparse(u)

        def establishes(test, pol, txt=txt):
          parts = [test]
          if isinstance(test, ast.BoolOp) and isinstance(test.op, ast.And) and pol:
            parts = test.values
          for t in parts:
            isn = is_none_test(t, lambda x: unparse(x) == txt)
            if isn is not None and isn != pol:
              return True
            if unparse(t) == txt and pol:
              return True
          return False
        # a guard in the same `and` chain counts as well
        p = parent(u)
        chain_ok = False
        while p is not None and p is not m.node:
          if isinstance(p, ast.BoolOp) and isinstance(p.op, ast.And):
            idx = next((k for k, v in enumerate(p.values) if any(x is u for x in ast.walk(v))), None)
            if idx is not None and any(establishes(v, True) for v in p.values[:idx]):
              chain_ok = True
          p = parent(p)
        nid = cfg.stmt_node_containing(node)
        ok = chain_ok or fact_holds_at(cfg, nid, establishes)
        ctx.check(ok, rule, f"{m.qualname}|{short(node, 60)}", ctx.where(m.module, node), f"`{txt}` is tested against None first",
                  f"`{txt}` is the value of an HTML attribute and is None for an attribute written without a value (`<font color>`); "
                  f"`{short(node, 60)}` receives it unchecked: TypeError / AttributeError on such input")
  return n


# NUL-arg ----------------------------------------------------------------------------------
def nullable_method_names(ix) -> typing.Dict[str, str]:
  """(method name, number of arguments) of the package all of whose implementations may return None by construction:
  the body returns `<dict>.get(key)` (no default), or returns None explicitly next to a value."""
  cached = getattr(ix, "_nullable_method_names", None)
  if cached is not None:
    return cached
  by_name: typing.Dict[str, typing.List[typing.Optional[str]]] = {}
  for f in ix.funcs.values():
    if f.cls is None or f.name.startswith("__"):
      continue
    why = None
    rets = [n for n in own_nodes(f.node) if isinstance(n, ast.Return)]
    for r in rets:
      v = r.value
      if isinstance(v, ast.Call) and isinstance(v.func, ast.Attribute) and v.func.attr == "get" and len(v.args) == 1 and not v.keywords:
        why = f"{f.short} returns `{unparse(v)}`, None for a missing key"
      elif (v is None or (isinstance(v, ast.Constant) and v.value is None)) and any(x.value is not None and not (isinstance(x.value, ast.Constant) and x.value.value is None) for x in rets):
        why = f"{f.short} returns None on one path"
    arity = len(f.params) - (0 if f.is_static else 1)
    by_name.setdefault((f.name, arity), []).append(why)
  out = {k: next(w for w in v if w) for k, v in by_name.items() if v and all(v)}
  ix._nullable_method_names = out
  return out


def _param_derefs(f: FuncInfo, param: str):
  """Unguarded dereferences of `param` in f (attribute / subscript / arithmetic), using the dominating-guard facts."""
  cfg = CFG(f.node)

  def tracked(p):
    return "parameter" if p == param else None

  def transfer(node, state):
    st = set(state)
    a = node.ast
    if node.kind == "stmt" and isinstance(a, (ast.Assign, ast.AugAssign, ast.AnnAssign)):
      for t in (a.targets if isinstance(a, ast.Assign) else [a.target]):
        if isinstance(t, ast.Name) and t.id == param:
          st.add(param)      # re-bound: no longer the caller's value
    if node.kind == "stmt" and isinstance(a, ast.Assert):
      st |= facts_from_test(a.test, True)
    return frozenset(st)

  def edge(node, lab, sin, sout):
    if isinstance(lab, tuple):
      if lab[0] == "cond":
        return frozenset(set(sout) | facts_from_test(lab[1], lab[2]))
      if lab[0] == "exc":
        return sin
    return sout
  inn = forward(cfg, frozenset(), transfer, lambda a, b: a & b, edge)
  hits = []
  for nid, state in inn.items():
    node = cfg.nodes[nid]
    if node.ast is None:
      continue
    for e in header_exprs(node):
      if isinstance(e, (ast.FunctionDef, ast.ClassDef)):
        continue
      if isinstance(e, ast.stmt):
        for ch in ast.iter_child_nodes(e):
          if isinstance(ch, ast.expr):
            _derefs(ch, tracked, set(state), hits)
          elif isinstance(ch, ast.keyword):
            _derefs(ch.value, tracked, set(state), hits)
      else:
        _derefs(e, tracked, set(state), hits)
  return hits


def _is_none_test_of(test, text: str) -> bool:
  """`<text> is None` / `(<text>) is None` / `<text> == None`"""
  return isinstance(test, ast.Compare) and len(test.ops) == 1 and isinstance(test.ops[0], (ast.Is, ast.Eq)) \
    and isinstance(test.comparators[0], ast.Constant) and test.comparators[0].value is None and unparse(test.left) == text


def _ancestors(node, stop):
  cur = getattr(node, "_parent", None)
  while cur is not None and cur is not stop:
    yield cur
    cur = getattr(cur, "_parent", None)


def check_nullable_args(ctx, funcs: typing.Iterable[FuncInfo], rule="NUL-arg", exempt: typing.Optional[typing.Dict[str, str]] = None):
  """`g(.., x.get_style(p), ..)`: the argument is the direct result of a method that returns None for a
  missing entry, and an implementation of g dereferences that parameter without a None test."""
  ix = ctx.ix
  nullable = dict(nullable_method_names(ix))
  by_name: typing.Dict[str, typing.List[FuncInfo]] = {}
  for g in ix.funcs.values():
    by_name.setdefault(g.name, []).append(g)
  deref_cache = {}
  n = 0
  for f in funcs:
    for c in own_nodes(f.node):
      if not isinstance(c, ast.Call):
        continue
      for i, a in enumerate(c.args):
        if not (isinstance(a, ast.Call) and isinstance(a.func, ast.Attribute) and (a.func.attr, len(a.args) + len(a.keywords)) in nullable):
          continue
        why_null = nullable[(a.func.attr, len(a.args) + len(a.keywords))]
        # guarded by an enclosing test on the same expression?
        txt = unparse(a)
        from . import match
        guarded = False
        for (test, pol) in match.enclosing_conditions(c, f.node):
          if txt in facts_from_test(test, pol):
            guarded = True
        if guarded:
          continue
        # the key is an item of the keys view of the same container: the entry exists
        if len(a.args) == 1 and isinstance(a.args[0], ast.Name):
          for anc in _ancestors(c, f.node):
            gens = [anc] if isinstance(anc, ast.For) else (anc.generators if isinstance(anc, (ast.ListComp, ast.SetComp, ast.GeneratorExp, ast.DictComp)) else [])
            for g_ in gens:
              it = g_.iter
              if isinstance(it, ast.Call) and isinstance(it.func, ast.Name) and it.func.id in ("list", "tuple", "sorted") and it.args:
                it = it.args[0]
              if isinstance(g_.target, ast.Name) and g_.target.id == a.args[0].id and isinstance(it, ast.Call) and isinstance(it.func, ast.Attribute) \
                  and it.func.attr in ("iter_styles", "keys") and unparse(it.func.value) == unparse(a.func.value):
                guarded = True
        # `if X.get(k) is None: X.set(k, <value>)` earlier in an enclosing block: the entry has been ensured
        if not guarded:
          cur = c
          while cur is not None and cur is not f.node and not guarded:
            par = getattr(cur, "_parent", None)
            for fld in ("body", "orelse", "finalbody"):
              blk = getattr(par, fld, None)
              if isinstance(blk, list) and any(x is cur for x in blk):
                for prev in blk[:[id(x) for x in blk].index(id(cur))]:
                  if isinstance(prev, ast.If) and not prev.orelse and _is_none_test_of(prev.test, txt) and any(
                      isinstance(w, ast.Call) and isinstance(w.func, ast.Attribute) and w.func.attr.startswith("set") and unparse(w.func.value) == unparse(a.func.value)
                      and w.args and unparse(w.args[0]) == unparse(a.args[0]) and len(w.args) == 2 and not (isinstance(w.args[1], ast.Constant) and w.args[1].value is None)
                      for st_ in prev.body for w in ast.walk(st_)):
                    guarded = True
            cur = par
        if guarded:
          n += 1
          continue
        ex = next((why for k_, why in (exempt or {}).items() if f.qualname.startswith(k_.split("|")[0]) and (("|" not in k_) or k_.split("|")[1] in txt)), None)
        if ex is not None:
          n += 1
          ctx.ok(rule, f"{f.qualname}|{short(c, 60)}|tabled", ctx.where(f.module, c), "tabled: " + ex)
          continue
        callees = []
        r = ix.resolve(f.module, c.func, cls=f.cls, func=f)
        if isinstance(r, FuncInfo):
          callees = [r]
        elif isinstance(c.func, ast.Attribute):
          callees = [g for g in by_name.get(c.func.attr, []) if g.cls is not None]
        n += 1
        for g in callees:
          off = 1 if (g.cls is not None and not g.is_static) else 0
          if isinstance(r, FuncInfo) and isinstance(c.func, ast.Name):
            off = 0
          if i + off >= len(g.params):
            continue
          p = g.params[i + off]
          k = (g.qualname, p)
          if k not in deref_cache:
            deref_cache[k] = _param_derefs(g, p)
          if deref_cache[k]:
            d = deref_cache[k][0][0]
            ctx.unit(f.module)
            ctx.bad(rule, f"{f.qualname}|{short(c, 80)}", ctx.where(f.module, c),
                    f"`{txt}` is None when the entry is missing ({why_null}), and it is passed as `{p}` to {g.short}, which evaluates "
                    f"`{short(d, 50)}` without a None test: AttributeError / TypeError")
            break
  return n


# NUL-optarg -----------------------------------------------------------------------------
def optional_fields(ix) -> typing.Dict[str, str]:
  """Attribute names that every `__init__` of the package which stores them fills straight from a parameter
  annotated `Optional[..]`: the field is None whenever the producer had nothing to put there."""
  by_attr: typing.Dict[str, typing.List[typing.Optional[str]]] = {}
  for f in ix.funcs.values():
    if f.cls is None or f.name != "__init__":
      continue
    a = f.node.args
    ann = {x.arg: x.annotation for x in a.posonlyargs + a.args + a.kwonlyargs}
    for st in own_nodes(f.node):
      if not isinstance(st, (ast.Assign, ast.AnnAssign)) or st.value is None:
        continue
      for t in (st.targets if isinstance(st, ast.Assign) else [st.target]):
        if isinstance(t, ast.Attribute) and isinstance(t.value, ast.Name) and t.value.id == "self":
          v = st.value
          why = None
          if isinstance(v, ast.Name) and ann.get(v.id) is not None and "Optional[" in unparse(ann[v.id]):
            why = f"{f.cls.name}.{t.attr} is filled from the parameter `{v.id}: {unparse(ann[v.id])}`"
          by_attr.setdefault(t.attr, []).append(why)
  out = {k: next(w for w in v if w) for k, v in by_attr.items() if v and all(v)}
  # keep the fields for which the package itself produces None: a constructor call by class name that leaves the
  # parameter out (default None) or passes the literal None
  produced = {}
  for f in ix.funcs.values():
    if f.cls is None or f.name != "__init__":
      continue
    a = f.node.args
    pos = [x.arg for x in a.posonlyargs + a.args][1:]
    ndef = len(a.defaults)
    defaults = dict(zip(pos[len(pos) - ndef:], a.defaults)) if ndef else {}
    for st in own_nodes(f.node):
      if isinstance(st, ast.Assign) and isinstance(st.value, ast.Name) and st.value.id in pos:
        for t in st.targets:
          if isinstance(t, ast.Attribute) and isinstance(t.value, ast.Name) and t.value.id == "self" and t.attr in out:
            produced.setdefault(f.cls.name, []).append((t.attr, st.value.id, pos.index(st.value.id), defaults.get(st.value.id)))
  keep = {}
  for m in ix.modules.values():
    for c in ast.walk(m.tree):
      if not (isinstance(c, ast.Call) and ((isinstance(c.func, ast.Name) and c.func.id in produced) or (isinstance(c.func, ast.Attribute) and c.func.attr in produced))):
        continue
      cname = c.func.id if isinstance(c.func, ast.Name) else c.func.attr
      if any(isinstance(x, ast.Starred) for x in c.args) or any(k.arg is None for k in c.keywords):
        continue
      for (attr, par, idx, dflt) in produced[cname]:
        given = c.args[idx] if idx < len(c.args) else next((k.value for k in c.keywords if k.arg == par), None)
        if (given is None and isinstance(dflt, ast.Constant) and dflt.value is None) or (isinstance(given, ast.Constant) and given.value is None):
          keep[attr] = out[attr] + f"; `{short(c, 50)}` at {m.name}:{c.lineno} leaves it None"
  return keep


def _rejects_none(g: FuncInfo, p: str) -> typing.Optional[ast.AST]:
  """`if not isinstance(p, T): raise ..` (None not among T) at the top level of g before `p` is re-bound."""
  for st in g.node.body:
    if isinstance(st, (ast.Assign, ast.AugAssign, ast.AnnAssign)) and any(isinstance(n, ast.Name) and n.id == p and isinstance(n.ctx, ast.Store) for n in ast.walk(st)):
      return None
    if isinstance(st, ast.If) and st.body and isinstance(st.body[0], ast.Raise):
      t = st.test
      if isinstance(t, ast.UnaryOp) and isinstance(t.op, ast.Not) and isinstance(t.operand, ast.Call) and isinstance(t.operand.func, ast.Name) \
          and t.operand.func.id == "isinstance" and len(t.operand.args) == 2 and isinstance(t.operand.args[0], ast.Name) and t.operand.args[0].id == p:
        types = unparse(t.operand.args[1])
        if "None" not in types:
          return st
  return None


def check_optional_field_args(ctx, funcs: typing.Iterable[FuncInfo], rule="NUL-optarg"):
  """`g(.., x.field, ..)` where `field` is an Optional field of a record of the package (see optional_fields), with no
  None test of `x.field` dominating the call: no implementation of g may dereference that parameter unguarded or
  reject a non-instance with an exception."""
  from ..cfg import CFG, fact_holds_at
  from .match import is_none_test
  ix = ctx.ix
  fields = optional_fields(ix)
  by_name: typing.Dict[str, typing.List[FuncInfo]] = {}
  for g in ix.funcs.values():
    by_name.setdefault(g.name, []).append(g)
  n = 0
  cache = {}
  typer = None
  for f in funcs:
    cfg = None
    for c in own_nodes(f.node):
      if not isinstance(c, ast.Call):
        continue
      for i, a in enumerate(c.args):
        if not (isinstance(a, ast.Attribute) and a.attr in fields and isinstance(a.ctx, ast.Load)):
          continue
        if isinstance(a.value, ast.Name) and a.value.id == "self" and f.cls is not None and f.name == "__init__":
          continue
        txt = unparse(a)

        def establishes(test, pol, txt=txt):
          parts = [test]
          if isinstance(test, ast.BoolOp) and ((isinstance(test.op, ast.And) and pol) or (isinstance(test.op, ast.Or) and not pol)):
            parts = test.values
          for t in parts:
            isn = is_none_test(t, lambda x: unparse(x) == txt)
            if isn is not None and isn != pol:
              return True
            if unparse(t) == txt and pol:
              return True
            if isinstance(t, ast.UnaryOp) and isinstance(t.op, ast.Not) and unparse(t.operand) == txt and not pol:
              return True
            if isinstance(t, ast.Call) and isinstance(t.func, ast.Name) and t.func.id == "isinstance" and t.args and unparse(t.args[0]) == txt and pol:
              return True
          return False
        chain_ok = False
        p_ = parent(a)
        while p_ is not None and p_ is not f.node:
          if isinstance(p_, ast.BoolOp) and isinstance(p_.op, ast.And):
            idx = next((k for k, v in enumerate(p_.values) if any(x is a for x in ast.walk(v))), None)
            if idx is not None and any(establishes(v, True) for v in p_.values[:idx]):
              chain_ok = True
          if isinstance(p_, ast.IfExp) and any(x is a for x in ast.walk(p_.body)) and establishes(p_.test, True):
            chain_ok = True
          if isinstance(p_, ast.IfExp) and any(x is a for x in ast.walk(p_.orelse)) and establishes(p_.test, False):
            chain_ok = True
          p_ = parent(p_)
        if cfg is None:
          cfg = CFG(f.node)
        try:
          nid = cfg.stmt_node_containing(c)
        except Exception:
          nid = None
        n += 1
        if chain_ok or (nid is not None and fact_holds_at(cfg, nid, establishes)):
          continue
        callees = []
        r = ix.resolve(f.module, c.func, cls=f.cls, func=f)
        if isinstance(r, FuncInfo):
          callees = [r]
        elif isinstance(c.func, ast.Attribute):
          callees = [g for g in by_name.get(c.func.attr, []) if g.cls is not None]
          # a receiver that is a local bound only to instances of known classes narrows the candidates to their methods
          recv = c.func.value
          if isinstance(recv, ast.Name) and recv.id not in f.params:
            if typer is None:
              from ..typing_lite import Typer, strip_opt
              typer = Typer(ix)
            env = typer.env(f)
            binds = [n_ for n_ in own_nodes(f.node) if isinstance(n_, (ast.Assign, ast.AnnAssign, ast.AugAssign, ast.For, ast.comprehension, ast.NamedExpr, ast.With))
                     and any(isinstance(x, ast.Name) and x.id == recv.id and isinstance(x.ctx, ast.Store) for x in ast.walk(n_))]
            types = []
            for b in binds:
              t = None
              if isinstance(b, ast.Assign) and len(b.targets) == 1 and isinstance(b.targets[0], ast.Name):
                from ..typing_lite import strip_opt
                t = strip_opt(typer.expr_type(f.module, b.value, env, f.cls, f))
              types.append(t)
            if types and all(t is not None and t[0] == "inst" for t in types):
              narrowed = []
              for t in types:
                g_ = ix.lookup_method(t[1], c.func.attr)
                if g_ is not None and g_ not in narrowed:
                  narrowed.append(g_)
              if narrowed:
                callees = narrowed
        verdicts = []
        for g in callees:
          off = 1 if (g.cls is not None and not g.is_static) else 0
          if isinstance(r, FuncInfo) and isinstance(c.func, ast.Name):
            off = 0
          if i + off >= len(g.params):
            continue
          p = g.params[i + off]
          k = (g.qualname, p)
          if k not in cache:
            rej = _rejects_none(g, p)
            der = None if rej is not None else (_param_derefs(g, p) or None)
            cache[k] = (rej, der)
          rej, der = cache[k]
          verdicts.append((g, p, rej, der))
        # without a resolved receiver the candidates are all methods of that name: report only when every one of them fails
        if verdicts and all(rej is not None or der for (_g, _p, rej, der) in verdicts):
          for (g, p, rej, der) in verdicts[:1]:
            ctx.unit(f.module)
            what = f"raises at `{short(rej, 50)}`" if rej is not None else f"evaluates `{short(der[0][0], 50)}` without a None test"
            ctx.bad(rule, f"{f.qualname}|{short(c, 80)}", ctx.where(f.module, c),
                    f"`{txt}` may be None ({fields[a.attr]}), no None test dominates the call, and it is passed as `{p}` to {g.short}, which {what}")
  return n


# NUL-known ----------------------------------------------------------------------------------
def none_facts_from_test(e, pol: bool) -> typing.Set[str]:
  """Local names known to BE None when test `e` evaluates to `pol`."""
  if isinstance(e, ast.UnaryOp) and isinstance(e.op, ast.Not):
    return none_facts_from_test(e.operand, not pol)
  if isinstance(e, ast.BoolOp):
    sets = [none_facts_from_test(v, pol) for v in e.values]
    if (isinstance(e.op, ast.And) and pol) or (isinstance(e.op, ast.Or) and not pol):
      return set().union(*sets)
    out = sets[0]
    for s in sets[1:]:
      out = out & s
    return out
  if isinstance(e, ast.Compare) and len(e.ops) == 1:
    op, l, r = e.ops[0], e.left, e.comparators[0]
    is_none = lambda x: isinstance(x, ast.Constant) and x.value is None
    if is_none(r) or is_none(l):
      other = l if is_none(r) else r
      if isinstance(other, ast.Name):
        if isinstance(op, (ast.Is, ast.Eq)) and pol:
          return {other.id}
        if isinstance(op, (ast.IsNot, ast.NotEq)) and not pol:
          return {other.id}
  return set()


def check_known_none(ctx, funcs: typing.Iterable[FuncInfo], rule="NUL-known"):
  """A local that a dominating test has established to BE None (the false side of `x is not None`, the code after
  `if x is not None: ... return`) and that is not assigned since is dereferenced (`x.attr`, `x[...]`, `x.m()`): the
  test and the dereference contradict each other - typically the name of a sibling branch's variable."""
  from ..cfg import assigned_names
  n = 0
  for f in funcs:
    tests = [t for t in own_nodes(f.node) if isinstance(t, (ast.If, ast.While, ast.IfExp)) and none_facts_from_test(t.test, True) | none_facts_from_test(t.test, False)]
    if not tests:
      continue
    cfg = CFG(f.node)

    def transfer(node, state):
      st = set(state)
      a = node.ast
      if node.kind == "stmt" and a is not None:
        tg = []
        if isinstance(a, ast.Assign):
          tg = a.targets
        elif isinstance(a, (ast.AugAssign, ast.AnnAssign)):
          tg = [a.target]
        elif isinstance(a, (ast.For, ast.AsyncFor)):
          tg = [a.target]
        elif isinstance(a, ast.With):
          tg = [i.optional_vars for i in a.items if i.optional_vars is not None]
        for t in tg:
          for nm in assigned_names(t):
            st.discard(nm)
        if isinstance(a, ast.Assign) and len(a.targets) == 1 and isinstance(a.targets[0], ast.Name) and isinstance(a.value, ast.Constant) and a.value.value is None:
          pass        # `x = None` alone is an initialisation idiom (loops assign it later): not a contradiction source
        for w in ast.walk(a) if not isinstance(a, (ast.FunctionDef, ast.ClassDef, ast.If, ast.While, ast.For, ast.Try, ast.With)) else []:
          if isinstance(w, ast.NamedExpr) and isinstance(w.target, ast.Name):
            st.discard(w.target.id)
      return frozenset(st)

    def edge(node, lab, sin, sout):
      if isinstance(lab, tuple):
        if lab[0] == "cond":
          return frozenset(set(sout) | none_facts_from_test(lab[1], lab[2]))
        if lab[0] == "exc":
          return sin
        if lab[0] == "iter":
          st = set(sout)
          for nm in ast.walk(node.ast.target):
            if isinstance(nm, ast.Name):
              st.discard(nm.id)
          return frozenset(st)
      return sout
    inn = forward(cfg, frozenset(), transfer, lambda a, b: a & b, edge)
    seen = set()
    for nid, state in inn.items():
      node = cfg.nodes[nid]
      if node.ast is None or not state:
        continue
      for e in header_exprs(node):
        if isinstance(e, (ast.FunctionDef, ast.ClassDef)):
          continue
        found = []
        tracked = lambda p, _s=state: "a dominating test established that it is None" if p in _s else None
        if isinstance(e, ast.stmt):
          for ch in ast.iter_child_nodes(e):
            if isinstance(ch, ast.expr):
              _derefs(ch, tracked, set(), found)
            elif isinstance(ch, ast.keyword):
              _derefs(ch.value, tracked, set(), found)
        else:
          _derefs(e, tracked, set(), found)
        for (d, p, why) in found:
          if "arithmetic" in why:
            continue
          k = (p, getattr(d, "lineno", 0), unparse(d))
          if k in seen:
            continue
          seen.add(k)
          ctx.unit(f.module)
          ctx.bad(rule, f"{f.qualname}|{short(d, 70)}", ctx.where(f.module, d),
                  f"`{p}` is None here (a dominating test on every path to this point says so, and it is not assigned in between), yet `{short(d, 60)}` dereferences it: "
                  "AttributeError / TypeError whenever this statement is reached")
    n += len(tests)
  return n
