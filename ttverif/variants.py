"""Self-test variants: one textual edit each (see selftest.py).  `file` is relative to
src/main/python.  Breaking variants still compile (and are the kind of change the existing test
suite does not notice); benign variants preserve behaviour."""

V = []


def brk(prop, vid, file, old, new, rule, what=""):
  V.append(dict(prop=prop, id=vid, kind="break", file=file, old=old, new=new, rule=rule, what=what))


def ben(prop, vid, file, old, new, what="", all=False):
  V.append(dict(prop=prop, id=vid, kind="benign", file=file, old=old, new=new, what=what, all=all))


def brk2(prop, vid, file, edits, rule, what=""):
  V.append(dict(prop=prop, id=vid, kind="break", file=file, edits=edits, rule=rule, what=what))


def ben2(prop, vid, file, edits, what=""):
  V.append(dict(prop=prop, id=vid, kind="benign", file=file, edits=edits, what=what))


ISD = "ttconv/isd.py"
MODEL = "ttconv/model.py"

# ---------------------------------------------------------------------------------------- C01
brk("C01", "c01-begin-exclusive", ISD, "(begin_time is not None and begin_time > absolute_offset) or", "(begin_time is not None and begin_time >= absolute_offset) or", "CMP-activity", "begin becomes exclusive")
brk("C01", "c01-end-inclusive", ISD, "(end_time is not None and end_time <= absolute_offset)\n      ) :", "(end_time is not None and end_time < absolute_offset)\n      ) :", "CMP-activity", "end becomes inclusive")
brk("C01", "c01-anim-end-inclusive", ISD, "if anim_end_time is not None and anim_end_time <= absolute_offset:", "if anim_end_time is not None and anim_end_time < absolute_offset:", "CMP-activity")
brk("C01", "c01-content-interval-end", ISD, "cached_doc.content_interval[1] <= offset)", "cached_doc.content_interval[1] < offset)", "CMP-activity")
brk("C01", "c01-no-clip", ISD, "      end_time = min(end_time, parent_end)", "      end_time = max(end_time, parent_end)", "CMP-absolute", "end no longer clipped by parent end")
brk("C01", "c01-end-ignores-parent-begin", ISD, "    end_time = (parent_begin if parent_begin is not None else Fraction(0)) + \\\n              end_offset if end_offset is not None else None",
    "    end_time = end_offset if end_offset is not None else None", "CMP-absolute")
brk("C01", "c01-children-parent-frame", ISD, "              isd_element,\n              begin_time,\n              end_time,\n              child_element", "              isd_element,\n              parent_computed_begin,\n              parent_computed_end,\n              child_element", "DEP-frame")
brk("C01", "c01-prune-or", ISD, "        associated_region is not selected_region and\n        (not element.has_children() or associated_region is not None)\n      ):\n      return None\n\n    # create an ISD element",
    "        associated_region is not selected_region and\n        (not element.has_children() and associated_region is not None)\n      ):\n      return None\n\n    # create an ISD element", "CMP-prune")
brk("C01", "c01-clone-prune", ISD, "    if (\n        associated_region is not selected_region and\n        (not element.has_children() or associated_region is not None)\n      ):\n      return None\n\n    new_element",
    "    if (\n        associated_region is not selected_region and\n        (associated_region is not None)\n      ):\n      return None\n\n    new_element", None, "cached clone prunes differently")
brk("C01", "c01-inherit-wrong-region", ISD, "              selected_region,\n              associated_region,\n              isd_element,\n              begin_time,", "              selected_region,\n              inherited_region,\n              isd_element,\n              begin_time,", "CMP-prune")
brk("C01", "c01-display-after-children", ISD, "    if isd_element.get_style(styles.StyleProperties.Display) is styles.DisplayType.none:\n      return None\n\n    # process children of the element\n\n    isd_element_children = []",
    "    # process children of the element\n\n    isd_element_children = []", None, "display=none prune removed")
ben("C01", "c01-benign-demorgan", ISD, "if anim_begin_time is not None and anim_begin_time > absolute_offset:", "if anim_begin_time is not None and not anim_begin_time <= absolute_offset:")
ben("C01", "c01-benign-rename", ISD, "    associated_region = element.get_region() if element.get_region() is not None else inherited_region\n\n    # prune the element if either:\n    # * the element has children and the associated region is neither the default nor the root region\n    # * the element has no children and the associated region is not the root region\n\n    if (\n        not isinstance(element, model.Region) and",
    "    associated_region = element.get_region() if element.get_region() is not None else inherited_region\n\n    # (comment changed)\n\n    if (\n        not isinstance(element, model.Region) and")
ben("C01", "c01-benign-ge", ISD, "(end_time is not None and end_time <= absolute_offset)\n      ) :", "(end_time is not None and absolute_offset >= end_time)\n      ) :")

# ---------------------------------------------------------------------------------------- C06
brk("C06", "c06-live-merge-regions", "ttconv/filters/isd/merge_regions.py", "for child in list(body):", "for child in body:", "LIVE")
brk("C06", "c06-live-merge-paragraphs", "ttconv/filters/isd/merge_paragraphs.py", "for span in list(p):", "for span in p:", "LIVE")
brk("C06", "c06-no-ruby-srt", "ttconv/srt/writer.py", "    if isinstance(element, (model.Ruby, model.Rbc, model.Rb)):\n      # keep the ruby base text; ruby annotations (rt, rtc, rp) are not rendered\n      for elem in list(element):\n        self.append_element(elem, begin, end)\n\n", "", "DSP-flatten")
brk("C06", "c06-end-is-own-begin", "ttconv/vtt/writer.py", "end = isds[i + 1][0] if i + 1 < len(isds) else None", "end = isds[i][0] if i + 1 < len(isds) else None", "SEQ-end")
brk("C06", "c06-end-off-by-one", "ttconv/srt/writer.py", "end = isds[i + 1][0] if i + 1 < len(isds) else None", "end = isds[i + 1][0] if i + 2 < len(isds) else None", "SEQ-end")
brk("C06", "c06-default-end-1s", "ttconv/srt/writer.py", "self._paragraphs[-1].get_begin().to_seconds() + 10.0", "self._paragraphs[-1].get_begin().to_seconds() + 1.0", "FIN-default")
ben("C06", "c06-benign-tuple", "ttconv/filters/isd/merge_regions.py", "for child in list(body):", "for child in tuple(body):")
ben("C06", "c06-benign-len", "ttconv/vtt/writer.py", "end = isds[i + 1][0] if i + 1 < len(isds) else None", "end = isds[i + 1][0] if i < len(isds) - 1 else None")

# ---------------------------------------------------------------------------------------- C09
DF = "ttconv/stl/datafile.py"
brk("C09", "c09-dfc", DF, "b'STL25.01': Fraction(25),", "b'STL25.01': Fraction(24),", "TAB-dfc")
brk("C09", "c09-cct", "ttconv/stl/tf.py", 'b\'03\': codecs.getdecoder("iso8859_7"),', 'b\'03\': codecs.getdecoder("iso8859_8"),', "TAB-cct")
brk("C09", "c09-colour", "ttconv/stl/tf.py", "      elif c == 0x02:\n        context.set_fg_color(styles.NamedColors.lime.value)", "      elif c == 0x02:\n        context.set_fg_color(styles.NamedColors.yellow.value)", "TAB-tf-codes")
brk("C09", "c09-iso6937", "ttconv/stl/iso6937.py", "b'\\xcfC': '\\u010C',", "b'\\xcfC': '\\u010D',", "TAB-iso6937")
brk("C09", "c09-ebn-range", DF, "if 0xEF < tti.EBN < 0xFF:", "if 0xEF < tti.EBN <= 0xFF:", "FIN-blocks")
brk("C09", "c09-sn-identity", DF, "if tti.SN != self.last_sn and tti.CS in (0x00, 0x01):", "if tti.SN is not self.last_sn and tti.CS in (0x00, 0x01):", "LINT-e")
brk("C09", "c09-gsi-field", DF, 'LOGGER.error("Invalid TCP value: %s", self.gsi.TCP)', 'LOGGER.error("Invalid TCP value: %s", self.gsi.tcp)', "LINT-g")
brk("C09", "c09-end-from-tci", DF, "end_time = tco.to_temporal_offset() - self.start_offset", "end_time = tci.to_temporal_offset() - self.start_offset", "DEP-times")
brk("C09", "c09-control-range", "ttconv/stl/tf.py", "return 0x00 <= c <= 0x07 or 0x0A <= c <= 0x0D or 0x1C <= c <= 0x1D or 0x80 <= c <= 0x85", "return 0x00 <= c <= 0x07 or 0x0A <= c <= 0x0D or 0x1C <= c <= 0x1D or 0x80 <= c <= 0x8A", "FIN-tf")
brk("C09", "c09-float-time", DF, "begin_time = tci.to_temporal_offset() - self.start_offset", "begin_time = tci.to_seconds() - self.start_offset", None)
ben("C09", "c09-benign-ebn", DF, "if 0xEF < tti.EBN < 0xFF:", "if 0xF0 <= tti.EBN <= 0xFE:")
ben("C09", "c09-benign-cf", DF, "if tti.CF == 0x01:", "if tti.CF == 1:")

# ---------------------------------------------------------------------------------------- C10
SRTR = "ttconv/srt/reader.py"
brk("C10", "c10-float-ms", SRTR, "        Fraction(int(m.group('begin_ms')), 1000)\n", "        int(m.group('begin_ms')) / 1000\n", "EXA")
brk("C10", "c10-undefined-text", SRTR, "  current_p = None\n  subtitle_text = \"\"\n", "  current_p = None\n", "DEF-local")
brk("C10", "c10-endtag-unguarded", SRTR, "    if isinstance(self.parent, model.P):\n      LOGGER.warning(\"Unmatched end tag %s at line %s\", tag, self.line_num)\n      return\n\n", "", "NUL-parent")
brk("C10", "c10-timecode-dot", SRTR, "(?P<begin_s>[0-9]{2}),(?P<begin_ms>[0-9]{3})", "(?P<begin_s>[0-9]{2})\\.(?P<begin_ms>[0-9]{3})", "FMT")
brk("C10", "c10-writer-separator", "ttconv/srt/paragraph.py", "    self._begin = ClockTime.from_seconds(offset)\n    self._begin.set_separator(\",\")", "    self._begin = ClockTime.from_seconds(offset)\n    self._begin.set_separator(\".\")", "FMT")
brk("C10", "c10-two-digit-hours", SRTR, "(?P<begin_h>[0-9]{2,3})", "(?P<begin_h>[0-9]{2})", "FMT")
brk("C10", "c10-tag-renamed", "ttconv/srt/style.py", 'UNDERLINE_TAG_IN = "<u>"', 'UNDERLINE_TAG_IN = "<ul>"', "TAB-tags")
ben("C10", "c10-benign-fraction", SRTR, "        Fraction(int(m.group('begin_ms')), 1000)\n", "        Fraction(m.group('begin_ms')) / 1000\n")
ben("C10", "c10-benign-arrow-spaces", SRTR, ",(?P<begin_ms>[0-9]{3})\\s+-->\\s+", ",(?P<begin_ms>[0-9]{3})[ \\t]+-->[ \\t]+")

# ---------------------------------------------------------------------------------------- C11
VTTR = "ttconv/vtt/reader.py"
brk("C11", "c11-float-ms", VTTR, "      Fraction(int(m.group('ms')), 1000)\n", "      int(m.group('ms')) / 1000\n", "EXA")
brk("C11", "c11-alias-state", "ttconv/vtt/tokenizer.py", "    annot_cref = 9\n", "    annot_cref = 3\n", "LINT-d")
brk("C11", "c11-none-line", VTTR, "    if state is _State.START:\n      if line is None:\n        break\n\n", "    if state is _State.START:\n", "NUL")
brk("C11", "c11-rt-outside-ruby", VTTR, 'if tag.startswith("rt") and self.ruby_rtc is not None:', 'if tag.startswith("rt"):', "NUL")
brk("C11", "c11-endtag-unguarded", VTTR, "    if isinstance(self.parent, model.P):\n      LOGGER.warning(\"Unmatched end tag at line %s\", self.line_num)\n      return\n\n", "", "NUL-parent")
brk("C11", "c11-cref-undefined", "ttconv/vtt/tokenizer.py", "    buffer: StringBuf = StringBuf()\n    cref: StringBuf = StringBuf()\n", "    buffer: StringBuf = StringBuf()\n", "DEF-local")
brk("C11", "c11-ts-comma", VTTR, '(?P<ss>[0-9]{2})\\.(?P<ms>[0-9]{3})")\n_VTT_TS_TAG_RE', '(?P<ss>[0-9]{2}),(?P<ms>[0-9]{3})")\n_VTT_TS_TAG_RE', "FMT")
brk("C11", "c11-writer-align-value", "ttconv/vtt/cue.py", '    left = "left"\n', '    left = "line-left"\n', "FMT")
ben("C11", "c11-benign-guard-form", VTTR, "      if line is None:\n        break\n\n      if not line.startswith(\"WEBVTT\"):", "      if line is None:\n        return doc\n\n      if not line.startswith(\"WEBVTT\"):")
ben("C11", "c11-benign-enum-renumber", "ttconv/vtt/tokenizer.py", "    annot_cref = 9\n", "    annot_cref = 10\n")

# ---------------------------------------------------------------------------------------- C12
TC = "ttconv/time_code.py"
brk("C12", "c12-float-rate", TC, "    frames = seconds * frame_rate\n", "    frames = seconds * float(frame_rate)\n", "EXA")
brk("C12", "c12-offset-float", TC, "    return Fraction(nb_frames, self._frame_rate)", "    return Fraction(nb_frames / float(self._frame_rate))", None)
brk("C12", "c12-df-separator", TC, 'return ":".join(f\'{item:02}\' for item in [self._hours, self._minutes, self._seconds]) + ";" + f\'{self._frames:02}\'', 'return ":".join(f\'{item:02}\' for item in [self._hours, self._minutes, self._seconds]) + ":" + f\'{self._frames:02}\'', None, "drop-frame printed like non-drop: parse recovers fields but the check of branch separation is value-level")
brk("C12", "c12-ms-width", TC, "+ self._ms_separator + f'{self._milliseconds:03}'", "+ self._ms_separator + f'{self._milliseconds:04}'", "FMT")
brk("C12", "c12-ndf-pattern", TC, "'(?P<ndf_f>[0-9]{2})'])", "'(?P<ndf_f>[0-9]{3})'])", "FMT")
brk("C12", "c12-to-time-format-float", "ttconv/imsc/attributes.py", 'return f"{math.ceil(time * context.frame_rate)}f"', 'return f"{math.ceil(float(time) * context.frame_rate)}f"', "EXA")
ben("C12", "c12-benign-format", TC, "+ self._ms_separator + f'{self._milliseconds:03}'", "+ self._ms_separator + f'{self._milliseconds:03d}'")
ben("C12", "c12-benign-int-fraction", TC, "    return SmpteTimeCode.from_frames(int(frames), frame_rate)", "    return SmpteTimeCode.from_frames(frames.__floor__() if isinstance(frames, Fraction) else int(frames), frame_rate)")

# ---------------------------------------------------------------------------------------- C15
brk("C15", "c15-no-cycle-guard", MODEL, "    if child is self.root():\n      raise RuntimeError(\"Cannot add a root element to its descendents\")\n", "    if child is self:\n      raise RuntimeError(\"Cannot add a root element to its descendents\")\n", "GUARD")
brk("C15", "c15-p-admits-text", MODEL, "    if not isinstance(child, (Span, Br, Ruby)):", "    if not isinstance(child, (Span, Br, Ruby, Text)):", "TAB-content")
brk("C15", "c15-ruby-pattern", MODEL, "[[Rb, Rt], [Rb, Rp, Rt, Rp], [Rbc, Rtc], [Rbc, Rtc, Rtc]]", "[[Rb, Rt], [Rb, Rp, Rt], [Rbc, Rtc], [Rbc, Rtc, Rtc]]", "TAB-content")
brk("C15", "c15-link-write-outside", MODEL, "    for c in list(self):\n      self.remove_child(c)\n", "    for c in list(self):\n      c._parent = None\n    self._first_child = None\n    self._last_child = None\n", "OWN-links")
brk("C15", "c15-store-before-validate", MODEL, "      if not style_prop.validate(value):\n        raise ValueError(f\"Invalid value {value} for style property {style_prop}\")\n\n      self._styles[style_prop] = value", "      self._styles[style_prop] = value\n\n      if not style_prop.validate(value):\n        raise ValueError(f\"Invalid value {value} for style property {style_prop}\")", None)
brk("C15", "c15-no-validate", MODEL, "      if not style_prop.validate(initial_value):\n\n        raise ValueError(\"Invalid value\")\n\n", "", "VAL-store")
brk("C15", "c15-lazy-map", MODEL, "      for e in body.dfs_iterator():\n        if e.get_region() is not None and e.get_region().get_id() == region_id:\n          e.set_region(None)\n", "      map(lambda e: e.get_region() is not None and e.get_region().get_id() == region_id and e.set_region(None), body.dfs_iterator())\n", "LINT-a")
brk("C15", "c15-vacuous-validate", "ttconv/style_properties.py", "all(isinstance(i, (str, GenericFontFamilyType)) for i in value)", "all(lambda i: isinstance(i, (str, GenericFontFamilyType)) for i in value)", "LINT-b")
brk("C15", "c15-put-region-no-repoint", MODEL, "    if replaced_region is not None and replaced_region is not region and self._body is not None:\n      for e in self._body.dfs_iterator():\n        if e.get_region() is replaced_region:\n          e.set_region(region)\n", "", "REG-repoint")
brk("C15", "c15-doc-guard-dropped", MODEL, "    if child.get_doc() != self.get_doc():\n      raise RuntimeError(\"Element belongs to a different document\")\n\n", "", "GUARD")
brk("C15", "c15-isd-region-two-bodies", ISD, "      if self.has_children():\n        raise ValueError(\"ISD regions must contain at most one body instance\")\n\n", "", "TAB-content")
ben("C15", "c15-benign-loop-guard", MODEL, "    if child is self.root():\n      raise RuntimeError(\"Cannot add a root element to its descendents\")\n", "    root = self.root()\n    if child is root:\n      raise RuntimeError(\"Cannot add a root element to its descendents\")\n")
ben("C15", "c15-benign-tuple-order", MODEL, "    if not isinstance(child, (Span, Br, Ruby)):", "    if not isinstance(child, (Ruby, Span, Br)):")

# ---------------------------------------------------------------------------------------- C16
LCD = "ttconv/filters/doc/lcd.py"
brk("C16", "c16-live-animations", "ttconv/filters/remove_animations.py", "for step in list(element.iter_animation_steps()):", "for step in element.iter_animation_steps():", "LIVE")
brk("C16", "c16-live-styles", "ttconv/filters/supported_style_properties.py", "    for style_prop in list(element.iter_styles()):", "    for style_prop in element.iter_styles():", "LIVE")
brk("C16", "c16-whitelist-fontsize", LCD, "      StyleProperties.Origin: [],\n      StyleProperties.Position: []\n    }", "      StyleProperties.Origin: [],\n      StyleProperties.FontSize: [],\n      StyleProperties.Position: []\n    }", "TAB-whitelist")
brk("C16", "c16-position-kept-on-content", LCD, "    content_supported_styles = dict(supported_styles)\n    del content_supported_styles[StyleProperties.Position]\n", "    content_supported_styles = dict(supported_styles)\n", "TAB-whitelist")
brk("C16", "c16-position-not-cleared", LCD, "        StyleProcessors.Position.compute(None, region)\n        region.set_style(StyleProperties.Position, None)\n", "        StyleProcessors.Position.compute(None, region)\n", "TAB-whitelist")
brk("C16", "c16-extent-after-position", LCD, "      StyleProcessors.Extent.compute(None, region)\n\n      # compute origin, which tts:position overrides and which requires the computed extent\n", "      # compute origin, which tts:position overrides and which requires the computed extent\n", "ORD-compute")
brk("C16", "c16-bg-no-body-guard", LCD, "    if doc.get_body() is not None and self.config.bg_color is not None:\n      _apply_bg_color", "    if self.config.bg_color is not None:\n      _apply_bg_color", "NUL")
brk("C16", "c16-safe-area", LCD, "  if safe_area < 0 or safe_area > 30:", "  if safe_area < 0 or safe_area > 300:", "FIN-range")
brk("C16", "c16-no-region-animations", LCD, "      # cleanup animations\n      animation_filter.process_element(region)\n", "", "COVER")
brk("C16", "c16-remove-before-repoint", LCD, "    # prune aliased regions\n    if doc.get_body() is not None:\n      _replace_regions(doc.get_body(), replaced_regions)\n\n    for region in list(doc.iter_regions()):\n      if region in replaced_regions:\n        doc.remove_region(region.get_id())\n",
    "    # prune aliased regions\n    for region in list(doc.iter_regions()):\n      if region in replaced_regions:\n        doc.remove_region(region.get_id())\n\n    if doc.get_body() is not None:\n      _replace_regions(doc.get_body(), replaced_regions)\n", "ORD-repoint")
ben("C16", "c16-benign-range-form", LCD, "  if safe_area < 0 or safe_area > 30:", "  if not 0 <= safe_area <= 30:")
ben("C16", "c16-benign-body-var", LCD, "    if doc.get_body() is not None and self.config.bg_color is not None:\n      _apply_bg_color(doc.get_body(), self.config.bg_color)", "    if self.config.bg_color is not None and doc.get_body() is not None:\n      _apply_bg_color(doc.get_body(), self.config.bg_color)")

# ---------------------------------------------------------------------------------------- C17
CC = "ttconv/scc/codes/"
brk("C17", "c17-control-value", CC + "control_codes.py", "EDM = (0x142C, 0x1C2C, 0x152C, 0x1D2C)", "EDM = (0x142C, 0x1C2C, 0x152C, 0x1D2E)", "TAB-control")
brk("C17", "c17-midrow-swapped", CC + "mid_row_codes.py", "  BLUE = (0x1124, 0x1924)\n  BLUE_UNDERLINE = (0x1125, 0x1925)", "  BLUE = (0x1125, 0x1925)\n  BLUE_UNDERLINE = (0x1124, 0x1924)", "TAB-midrow")
brk("C17", "c17-row-mapping", CC + "preambles_address_codes.py", "  (0x05, 0x60): 6,", "  (0x05, 0x60): 7,", "TAB-rows")
brk("C17", "c17-indent", CC + "preambles_address_codes.py", "return ((self._bits - 0x10) - (self._bits % 2)) * 2", "return ((self._bits - 0x10) - (self._bits % 2)) * 4", "FIN-pac-bits")
brk("C17", "c17-channel-bit", CC + "preambles_address_codes.py", "SccChannel.CHANNEL_2 if byte_1 & 0x08 else SccChannel.CHANNEL_1", "SccChannel.CHANNEL_2 if byte_1 & 0x04 else SccChannel.CHANNEL_1", "FIN-channel")
brk("C17", "c17-parity-mask", "ttconv/scc/word.py", "PARITY_BIT_MASK = 0b01111111", "PARITY_BIT_MASK = 0b11111111", "SHAPE")
brk("C17", "c17-special-char", CC + "special_characters.py", "MUSIC_NOTE = (0x1137, 0x1937, '\\u266A')", "MUSIC_NOTE = (0x1137, 0x1937, '\\u266B')", "TAB-special")
brk("C17", "c17-standard-char", CC + "standard_characters.py", '(0x7E, "\\u00F1"),', '(0x7E, "~"),', "TAB-standard")
brk("C17", "c17-is-code-range", "ttconv/scc/word.py", "return 0x10 <= self.byte_1 <= 0x1F", "return 0x10 <= self.byte_1 < 0x1F", "FIN-is-code")
brk("C17", "c17-one-byte-masked", "ttconv/scc/word.py", "    byte_2 = SccWord._decipher_parity_bit(byte_2)\n", "", "SHAPE")
brk("C17", "c17-extended-ch2", CC + "extended_characters.py", "YEN_SIGN = (0x1335, 0x1B35, '\\u00A5')", "YEN_SIGN = (0x1335, 0x1B36, '\\u00A5')", "TAB-extended")
ben("C17", "c17-benign-hex-case", CC + "control_codes.py", "EDM = (0x142C, 0x1C2C, 0x152C, 0x1D2C)", "EDM = (0x142c, 0x1c2c, 0x152c, 0x1d2c)")
ben("C17", "c17-benign-mask-hex", "ttconv/scc/word.py", "PARITY_BIT_MASK = 0b01111111", "PARITY_BIT_MASK = 0x7F")


# ---------------------------------------------------------------------------------------- C02
brk("C02", "c02-anim-parent-frame", ISD, "        anim_step.begin,\n        anim_step.end,\n        begin_time,\n        end_time\n      )", "        anim_step.begin,\n        anim_step.end,\n        parent_computed_begin,\n        parent_computed_end\n      )", "DEP-frame")
brk("C02", "c02-end-not-collected", ISD, "      s_times.add(begin_time)\n\n      if end_time is not None:\n        s_times.add(end_time)\n", "      s_times.add(begin_time)\n", "COMPLETE")
brk("C02", "c02-unsorted", ISD, "return SignificantTimes(sorted(s_times), tuple(cache))", "return SignificantTimes(list(s_times), tuple(cache))", "SORTED")
brk("C02", "c02-children-parent-frame", ISD, "compute_sig_times(interval_cache, content_interval, s_times, child_element, begin_time, end_time)", "compute_sig_times(interval_cache, content_interval, s_times, child_element, parent_begin, parent_end)", "DEP-frame")
brk("C02", "c02-zip-shift", ISD, "    return list(zip(sig_times, isds))", "    return list(zip(sig_times[1:], isds))", "SORTED")
brk("C02", "c02-regions-not-collected", ISD, "      for region in cached_doc.iter_regions():\n        compute_sig_times(interval_cache, content_interval, s_times, region, 0, None)\n", "", "COMPLETE")
brk("C02", "c02-anim-begin-dropped", ISD, "        s_times.add(anim_begin_time)\n\n", "", "COMPLETE")
ben("C02", "c02-benign-iter", ISD, "      for child_element in iter(element):", "      for child_element in element:")
ben("C02", "c02-benign-comment", ISD, "      # add signficant times for any animation step \n", "      # animation steps\n")

# ---------------------------------------------------------------------------------------- C03
SPY = "ttconv/style_properties.py"
brk("C03", "c03-specified-overwrites", ISD, "      if isd_element.has_style(spec_style_prop):\n        # skip if the style has already been set\n        continue\n\n", "", "PRI-style")
brk("C03", "c03-order-extent-position", ISD, "    styles.StyleProperties.Extent,\n    styles.StyleProperties.Origin,\n    styles.StyleProperties.Position,", "    styles.StyleProperties.Position,\n    styles.StyleProperties.Origin,\n    styles.StyleProperties.Extent,", "TAB-compute-order")
brk("C03", "c03-color-not-inherited", SPY, "Corresponds to tts:color.'''\n\n    is_inherited = True", "Corresponds to tts:color.'''\n\n    is_inherited = False", "TAB-styles")
brk("C03", "c03-initial-textalign", SPY, "      return TextAlignType.start", "      return TextAlignType.center", "TAB-styles")
brk("C03", "c03-span-loses-color", MODEL, "Span element, as specified in TTML2'''\n\n  _applicableStyles = frozenset([\n    StyleProperties.BackgroundColor,\n    StyleProperties.Color,", "Span element, as specified in TTML2'''\n\n  _applicableStyles = frozenset([\n    StyleProperties.BackgroundColor,", "TAB-applies")
brk("C03", "c03-origin-x-rows", ISD, "      x = _compute_length(\n        style_value.x,\n        _make_rw_length(100),\n        None,\n        _make_rw_length(100 / element.get_doc().get_cell_resolution().columns),", "      x = _compute_length(\n        style_value.x,\n        _make_rw_length(100),\n        None,\n        _make_rh_length(100 / element.get_doc().get_cell_resolution().rows),", "AXIS")
brk("C03", "c03-padding-axis", ISD, "      c_start = _compute_length(\n        padding_value.start,\n        extent.width if not is_vertical else extent.height,", "      c_start = _compute_length(\n        padding_value.start,\n        extent.height if not is_vertical else extent.width,", "AXIS")
brk("C03", "c03-pct-not-divided", ISD, "      value=source_length.value * pct_ref.value / 100,", "      value=source_length.value * pct_ref.value,", "DSP-units")
brk("C03", "c03-direction-swapped", ISD, "direction = styles.DirectionType.ltr if element.get_style(styles.StyleProperties.WritingMode) == styles.WritingModeType.lrtb \\\n                  else styles.DirectionType.rtl", "direction = styles.DirectionType.rtl if element.get_style(styles.StyleProperties.WritingMode) == styles.WritingModeType.lrtb \\\n                  else styles.DirectionType.ltr", "PRI-style")
brk("C03", "c03-fontsize-inherit-overwrites", ISD, "    def inherit(cls, parent: model.ContentElement, element: model.ContentElement):\n      if element.has_style(cls.style_prop):\n        return\n\n      parent_value: styles.LengthType", "    def inherit(cls, parent: model.ContentElement, element: model.ContentElement):\n      parent_value: styles.LengthType", "PRI-style")
brk("C03", "c03-decoration-no-merge", ISD, "underline=spec_value.underline if spec_value.underline is not None else parent_value.underline,", "underline=spec_value.underline,", "PRI-style")
ben("C03", "c03-benign-applicable-order", MODEL, "Body element, as specified in TTML2'''\n\n  _applicableStyles = frozenset([\n    StyleProperties.BackgroundColor,\n    StyleProperties.Display,", "Body element, as specified in TTML2'''\n\n  _applicableStyles = frozenset([\n    StyleProperties.Display,\n    StyleProperties.BackgroundColor,")
ben("C03", "c03-benign-initial-kw", SPY, "      return LengthType(1, LengthType.Units.c)", "      return LengthType(value=1, units=LengthType.Units.c)")

# ---------------------------------------------------------------------------------------- C13
brk("C13", "c13-disparity-unscheduled", ISD, "    styles.StyleProperties.Padding,\n    styles.StyleProperties.Disparity\n  )", "    styles.StyleProperties.Padding\n  )", "TAB-lengths")
brk("C13", "c13-linepadding-raw", ISD, "      element.set_style(\n        cls.style_prop,\n        _compute_length(\n          element.get_style(cls.style_prop),\n          element.get_style(styles.StyleProperties.FontSize),\n          element.get_style(styles.StyleProperties.FontSize),\n          _make_rh_length(100 / element.get_doc().get_cell_resolution().rows),\n          _make_rh_length(100 / element.get_doc().get_px_resolution().height)\n        )\n      )\n\n  class LuminanceGain", "      element.set_style(\n        cls.style_prop,\n        element.get_style(cls.style_prop)\n      )\n\n  class LuminanceGain", "TAB-lengths")
brk("C13", "c13-outline-raw-thickness", ISD, "          thickness=_compute_length(\n            value.thickness,", "          thickness=value.thickness if value.thickness.value == 0 else _compute_length(\n            value.thickness,", "TAB-lengths")
brk("C13", "c13-isd-timing", ISD, "      isd_element = element.__class__(isd)\n      isd_element.set_id(element.get_id())", "      isd_element = element.__class__(isd)\n      isd_element.set_id(element.get_id())\n      isd_element.set_begin(element.get_begin())", "OWN-isd")
brk("C13", "c13-early-return", ISD, "    # remove styles that are not applicable\n\n    for style_prop in list(isd_element.iter_styles()):", "    if isinstance(isd_element, model.Br):\n      return isd_element\n\n    # remove styles that are not applicable\n\n    for style_prop in list(isd_element.iter_styles()):", "ORD-applicable")
brk("C13", "c13-origin-position-differ", ISD, "        styles.CoordinateType(\n            x=h_offset,\n            y=v_offset\n          )", "        styles.CoordinateType(\n            x=v_offset,\n            y=h_offset\n          )", "DEP-position")
brk("C13", "c13-lang-not-copied", ISD, "      self.set_lang(doc.get_lang())\n", "", "DSP-params")
brk("C13", "c13-copy-to-isd", ISD, "      isd_element = element.__class__(isd)\n      isd_element.set_id(element.get_id())", "      isd_element = element.__class__(isd)\n      element.copy_to(isd_element)", "OWN-isd")
ben("C13", "c13-benign-type", ISD, "      isd_element = element.__class__(isd)", "      isd_element = type(element)(isd)")
ben("C13", "c13-benign-local", ISD, "      y = _compute_length(\n        style_value.y,\n        _make_rh_length(100),", "      full_height = _make_rh_length(100)\n      y = _compute_length(\n        style_value.y,\n        full_height,")

# ---------------------------------------------------------------------------------------- C14
brk("C14", "c14-mutates-source-style", ISD, "      styles_to_be_computed.add(spec_style_prop)\n      isd_element.set_style(spec_style_prop, element.get_style(spec_style_prop))", "      styles_to_be_computed.add(spec_style_prop)\n      element.set_style(spec_style_prop, element.get_style(spec_style_prop))\n      isd_element.set_style(spec_style_prop, element.get_style(spec_style_prop))", "PUR")
brk("C14", "c14-writer-mutates-doc", "ttconv/srt/writer.py", "  srt = SrtContext(config if config is not None else SRTWriterConfiguration())\n", "  srt = SrtContext(config if config is not None else SRTWriterConfiguration())\n  if doc.get_body() is not None:\n    doc.get_body().set_begin(None)\n", "PUR")
brk("C14", "c14-clone-detaches-source", ISD, "    new_element = type(element)(new_doc)\n    element.copy_to(new_element)", "    new_element = type(element)(new_doc)\n    element.copy_to(new_element)\n    element.remove()", "PUR")
brk("C14", "c14-copy-loses-end", MODEL, "    dest.set_begin(self.get_begin())\n    dest.set_end(self.get_end())\n    dest.set_id(self.get_id())", "    dest.set_begin(self.get_begin())\n    dest.set_id(self.get_id())", "DSP-copy")
brk("C14", "c14-bg-ignores-animation", ISD, "    for _anim_step in region.iter_animation_steps():\n      return True\n\n", "", "ORD-anim")
brk("C14", "c14-shared-activity-cache", ISD, "      activity_cache = {}\n\n      if regions:", "      activity_cache = cached_doc.interval_cache\n\n      if regions:", "STATE")
brk("C14", "c14-region-copy-loses-animation", MODEL, "    dest.set_begin(self.get_begin())\n    dest.set_end(self.get_end())\n    \n    for style_prop in self.iter_styles():\n      dest.set_style(style_prop, self.get_style(style_prop))\n\n    for anim_step in self.iter_animation_steps():\n      dest.add_animation_step(anim_step)\n\n  def set_id(self, element_id):", "    dest.set_begin(self.get_begin())\n    dest.set_end(self.get_end())\n    \n    for style_prop in self.iter_styles():\n      dest.set_style(style_prop, self.get_style(style_prop))\n\n  def set_id(self, element_id):", "DSP-copy")
ben("C14", "c14-benign-fresh-mutation", ISD, "    new_element = type(element)(new_doc)\n    element.copy_to(new_element)", "    new_element = type(element)(new_doc)\n    element.copy_to(new_element)\n    new_element.set_lang(element.get_lang())")
ben("C14", "c14-benign-anim-precise", ISD, "    for _anim_step in region.iter_animation_steps():\n      return True\n", "    if len(list(region.iter_animation_steps())) > 0:\n      return True\n")


# ---------------------------------------------------------------------------------------- benign variants for the shape rules
ben("C10", "c10-benign-br-guard-form", SRTR, "      if i > 0:\n        self.parent.push_child(model.Br(self.parent.get_doc()))", "      if i >= 1:\n        self.parent.push_child(model.Br(self.parent.get_doc()))")
ben("C10", "c10-benign-doc-local", SRTR, "    span = model.Span(self.parent.get_doc())\n    self.parent.push_child(span)\n    self.parent = span\n\n    if tag.lower() in (\"b\", \"bold\"):", "    doc = self.parent.get_doc()\n    span = model.Span(doc)\n    self.parent.push_child(span)\n    self.parent = span\n\n    if tag.lower() in (\"b\", \"bold\"):")
ben("C10", "c10-benign-time-fraction", SRTR, "        int(m.group('end_h')) * 3600 + \n        int(m.group('end_m')) * 60 + \n        int(m.group('end_s')) +", "        Fraction(int(m.group('end_h')) * 3600) + \n        60 * int(m.group('end_m')) + \n        int(m.group('end_s')) +")
ben("C11", "c11-benign-region-loop", VTTR, "    if r.get_style(styles.StyleProperties.DisplayAlign) != display_align:\n      continue\n\n    found_region = r\n    break", "    if not r.get_style(styles.StyleProperties.DisplayAlign) == display_align:\n      continue\n\n    found_region = r\n    break")
ben("C11", "c11-benign-align-block-comment", VTTR, "  # text align\n\n  value = cue_settings.get(\"align\")", "  # text alignment of the cue\n\n  value = cue_settings.get(\"align\")")
ben("C12", "c12-benign-total-ms", TC, "    seconds = round(seconds, 3)\n\n    h = floor(seconds / 3600)\n    m = floor(seconds / 60 % 60)\n    s = floor(seconds % 60)\n    ms = round((seconds % 1) * 1000)\n", "    total_ms = round(seconds * 1000)\n\n    h = total_ms // 3600000\n    m = total_ms // 60000 % 60\n    s = total_ms // 1000 % 60\n    ms = total_ms % 1000\n")
ben("C16", "c16-benign-none-default", LCD, "          region.get_begin() or 0,", "          region.get_begin() if region.get_begin() is not None else 0,")
ben("C15", "c15-benign-detach-setter", MODEL, "      if doc is None:\n        e._region = None\n      e._doc = doc", "      e._doc = doc\n      if doc is None:\n        e._region = None")
ben("C06", "c06-benign-extend", "ttconv/filters/isd/merge_paragraphs.py", "        paragraphs = paragraphs + self._get_paragraphs(child)", "        paragraphs.extend(self._get_paragraphs(child))")
ben("C09", "c09-benign-reset-first", DF, "    if tti.EBN != 0xFF:\n      self.is_in_extension = True\n      return\n\n    self.is_in_extension = False\n", "    self.is_in_extension = tti.EBN != 0xFF\n    if self.is_in_extension:\n      return\n")
brk("C16", "c16-safe-area-falsy", LCD, "          x=LengthType(self.config.safe_area, LengthType.Units.pct),", "          x=LengthType(self.config.safe_area or 10, LengthType.Units.pct),", "LINT-h")
brk("C11", "c11-size-before-vertical", VTTR, "  # writing direction\n\n  value = cue_settings.get(\"vertical\")\n  if value == \"lr\":\n    writing_mode = styles.WritingModeType.tblr\n  elif value == \"rl\":\n    writing_mode = styles.WritingModeType.tbrl\n  elif value is not None:\n    LOGGER.warning(\"Bad vertical setting value: %s\", value)\n\n\n  # size\n", "  # size\n", None, "vertical no longer parsed")

# ---------------------------------------------------------------------------------------- C19
TT = "ttconv/tt.py"
brk("C19", "c19-itype-case", TT, "    return FileTypes(file_type.lower())", "    return FileTypes(file_type)", "TYPE")
brk("C19", "c19-ext-case", TT, "      return FileTypes(file_extension.lower())", "      return FileTypes(file_extension)", "TYPE")
brk("C19", "c19-ext-wins", TT, "    if file_type is None:\n      if len(file_extension) > 0", "    if file_extension is not None:\n      if len(file_extension) > 0", "TYPE", "extension wins over --itype")
brk("C19", "c19-config-precedence", TT, "  if args.config is not None:\n    json_config_data = json.loads(args.config)\n  if args.config_file is not None:\n    with open(args.config_file) as json_file:\n      json_config_data = json.load(json_file)\n",
    "  if args.config_file is not None:\n    with open(args.config_file) as json_file:\n      json_config_data = json.load(json_file)\n  if args.config is not None:\n    json_config_data = json.loads(args.config)\n", "FIN-config")
brk("C19", "c19-config-file-elif", TT, "  if args.config_file is not None:\n    with open(args.config_file)", "  elif args.config_file is not None:\n    with open(args.config_file)", "FIN-config", "file ignored when both given")
brk("C19", "c19-wrong-config-class", TT, "    writer_config = read_config_from_json(SRTWriterConfiguration, json_config_data)", "    writer_config = read_config_from_json(VTTWriterConfiguration, json_config_data)", "DSP-types")
brk("C19", "c19-scc-config-dropped", TT, "    model = scc_reader.to_model(file_as_str, reader_config, progress_callback_read)", "    model = scc_reader.to_model(file_as_str, None, progress_callback_read)", "DSP-types")
brk("C19", "c19-output-opened-early", TT, "    srt_document = srt_writer.from_model(model, writer_config, progress_callback_write)\n\n    #\n    # Write out the converted file\n    #\n    with open(outputfile, \"w\", encoding=\"utf-8\") as srt_file:\n      srt_file.write(srt_document)",
    "    with open(outputfile, \"w\", encoding=\"utf-8\") as srt_file:\n      srt_document = srt_writer.from_model(model, writer_config, progress_callback_write)\n      srt_file.write(srt_document)", "OUT")
brk("C19", "c19-lang-after-filters", TT, "  #\n  # apply document language\n  #\n  if general_config is not None and general_config.document_lang is not None:\n    model.set_lang(general_config.document_lang)\n\n  #\n  # apply document filter\n  #\n",
    "  #\n  # apply document filter\n  #\n", None, "document_lang no longer applied")
brk("C19", "c19-filters-reversed", TT, "  for filter_name in args.filter:", "  for filter_name in reversed(args.filter):", "ORD")
brk("C19", "c19-filters-set", TT, "  for filter_name in args.filter:", "  for filter_name in set(args.filter):", None)
brk("C19", "c19-filter-default-config", TT, "doc_filter_class(filter_config or filter_config_class())", "doc_filter_class(filter_config)", "ORD")
brk("C19", "c19-no-exit-on-unsupported-output", TT, "      exit_str = f'Output file is {args.output} is not supported'\n\n    LOGGER.error(exit_str)\n    sys.exit(exit_str)", "      exit_str = f'Output file is {args.output} is not supported'\n\n    LOGGER.error(exit_str)", "DSP-types")
brk("C19", "c19-decoder-bool", "ttconv/vtt/config.py", "cue_id: bool = field(default=True, metadata={\"decoder\": decode_bool})", "cue_id: bool = field(default=True, metadata={\"decoder\": bool})", "TAB-decoders")
brk("C19", "c19-duplicate-section", "ttconv/vtt/config.py", "    return \"vtt_writer\"", "    return \"srt_writer\"", "CONFIG")
brk("C19", "c19-set-iteration", ISD, "    return SignificantTimes(sorted(s_times), tuple(cache))", "    return SignificantTimes(list(s_times), tuple(cache))", "DET-set")
brk("C19", "c19-itype-with-output-ext", TT, "  writer_type = FileTypes.get_file_type(args.otype, output_file_extension)", "  writer_type = FileTypes.get_file_type(args.otype, input_file_extension)", "TYPE")
brk("C19", "c19-global-cache", "ttconv/filters/document_filter.py", "  @classmethod\n  def get_filter_by_name(cls, name)", "  _cache = {}\n\n  @classmethod\n  def remember(cls, name, value):\n    cls._cache[name] = value\n\n  @classmethod\n  def get_filter_by_name(cls, name)", None, "class-level cache mutated")
ben("C19", "c19-benign-rename-config-var", TT, "json_config_data", "cfg_json", "local renamed everywhere", all=True)
ben("C19", "c19-benign-casefold", TT, "    return FileTypes(file_type.lower())", "    return FileTypes(file_type.casefold())")
V.append(dict(prop="C19", id="c19-benign-model-rename", kind="benign", file=TT, all=True, what="document local renamed",
              edits=[("  model = ", "  document = "), ("model.set_lang", "document.set_lang"), ("process(model)", "process(document)"), ("from_model(model,", "from_model(document,")]))
ben("C19", "c19-benign-general-first", TT, "  LOGGER.info(\"Input file is %s\", inputfile)\n  LOGGER.info(\"Output file is %s\", outputfile)\n", "  LOGGER.info(\"Output file is %s\", outputfile)\n  LOGGER.info(\"Input file is %s\", inputfile)\n")

# ---------------------------------------------------------------------------------------- C07
SRTW, VTTW = "ttconv/srt/writer.py", "ttconv/vtt/writer.py"
brk("C07", "c07-srt-close-order", SRTW, "        if is_italic:\n          self._paragraphs[-1].append_text(style.ITALIC_TAG_OUT)\n        if is_bold:\n          self._paragraphs[-1].append_text(style.BOLD_TAG_OUT)", "        if is_bold:\n          self._paragraphs[-1].append_text(style.BOLD_TAG_OUT)\n        if is_italic:\n          self._paragraphs[-1].append_text(style.ITALIC_TAG_OUT)", "PAIR-tags")
brk("C07", "c07-vtt-wrong-closer", VTTW, "      if is_underlined:\n        self._paragraphs[-1].append_text(style.UNDERLINE_TAG_OUT)\n      if is_italic:", "      if is_underlined:\n        self._paragraphs[-1].append_text(style.ITALIC_TAG_OUT)\n      if is_italic:", "PAIR-tags")
brk("C07", "c07-vtt-closer-condition", VTTW, "      if color is not None:\n        self._paragraphs[-1].append_text(style.COLOR_TAG_OUT)", "      if color is not None and bg_color is None:\n        self._paragraphs[-1].append_text(style.COLOR_TAG_OUT)", "PAIR-tags")
brk("C07", "c07-srt-format-off", SRTW, "      if self._text_formatting:\n        if is_underlined:\n          self._paragraphs[-1].append_text(style.UNDERLINE_TAG_OUT)", "      if True:\n        if is_underlined:\n          self._paragraphs[-1].append_text(style.UNDERLINE_TAG_OUT)", None)
brk("C07", "c07-vtt-no-escape", VTTW, "self._paragraphs[-1].append_text(style.escape_cue_text(element.get_text()))", "self._paragraphs[-1].append_text(element.get_text())", "TAINT")
brk("C07", "c07-vtt-escape-order", "ttconv/vtt/style.py", 'return text.replace("&", "&amp;").replace("<", "&lt;").replace(">", "&gt;")', 'return text.replace("<", "&lt;").replace(">", "&gt;").replace("&", "&amp;")', "TAINT")
brk("C07", "c07-vtt-escape-lt-missing", "ttconv/vtt/style.py", 'return text.replace("&", "&amp;").replace("<", "&lt;").replace(">", "&gt;")', 'return text.replace("&", "&amp;").replace(">", "&gt;")', "TAINT")
brk("C07", "c07-srt-numbering", SRTW, "p.to_string(id + 1) for id, p in enumerate(self._paragraphs)", "p.to_string(id) for id, p in enumerate(self._paragraphs)", "SEQ-id")
brk("C07", "c07-vtt-counter", VTTW, "      self._paragraphs.pop()\n      self._captions_counter -= 1", "      self._paragraphs.pop()", "SEQ-id")
brk("C07", "c07-vtt-header-order", VTTW, 'return "WEBVTT\\n\\n" + self.style_block() + "\\n".join(p.to_string() for p in self._paragraphs)', 'return "WEBVTT\\n\\n" + "\\n".join(p.to_string() for p in self._paragraphs) + self.style_block()', "HDR")
brk("C07", "c07-srt-guard-strict", "ttconv/srt/paragraph.py", "    if self._end.to_seconds() <= self._begin.to_seconds():", "    if self._end.to_seconds() < self._begin.to_seconds():", "GUARD")
brk("C07", "c07-vtt-guard-removed", "ttconv/vtt/cue.py", "    if self._end.to_seconds() <= self._begin.to_seconds():\n      raise ValueError(\"VTT paragraph end time code must be greater than the begin time code.\")\n\n", "", "GUARD")
ben("C07", "c07-benign-guard-flipped", "ttconv/vtt/cue.py", "    if self._end.to_seconds() <= self._begin.to_seconds():", "    if not self._begin.to_seconds() < self._end.to_seconds():")
ben("C07", "c07-benign-enumerate-start", SRTW, "p.to_string(id + 1) for id, p in enumerate(self._paragraphs)", "p.to_string(n) for n, p in enumerate(self._paragraphs, 1)")
ben("C07", "c07-benign-escape-local", "ttconv/vtt/style.py", 'return text.replace("&", "&amp;").replace("<", "&lt;").replace(">", "&gt;")', 'escaped = text.replace("&", "&amp;")\n  return escaped.replace("<", "&lt;").replace(">", "&gt;")')
ben("C07", "c07-benign-header-local", VTTW, 'return "WEBVTT\\n\\n" + self.style_block() + "\\n".join(p.to_string() for p in self._paragraphs)', 'cues = "\\n".join(p.to_string() for p in self._paragraphs)\n    return "WEBVTT\\n\\n" + self.style_block() + cues')
ben2("C07", "c07-benign-open-order", VTTW, [("      if is_bold:\n        self._paragraphs[-1].append_text(style.BOLD_TAG_IN)\n      if is_italic:\n        self._paragraphs[-1].append_text(style.ITALIC_TAG_IN)", "      if is_italic:\n        self._paragraphs[-1].append_text(style.ITALIC_TAG_IN)\n      if is_bold:\n        self._paragraphs[-1].append_text(style.BOLD_TAG_IN)"),
     ("      if is_italic:\n        self._paragraphs[-1].append_text(style.ITALIC_TAG_OUT)\n      if is_bold:\n        self._paragraphs[-1].append_text(style.BOLD_TAG_OUT)", "      if is_bold:\n        self._paragraphs[-1].append_text(style.BOLD_TAG_OUT)\n      if is_italic:\n        self._paragraphs[-1].append_text(style.ITALIC_TAG_OUT)")], "both orders swapped consistently")

# ---------------------------------------------------------------------------------------- C04
ELS = "ttconv/imsc/elements.py"
brk("C04", "c04-chained-first-wins", ELS, "        style_ref = style_element.style_refs.pop()\n", "        style_ref = style_element.style_refs.pop(0)\n", "FIN-chain")
brk("C04", "c04-ref-order", ELS, "      for style_ref in reversed(imsc_attr.StyleAttribute.extract(xml_elem)):", "      for style_ref in imsc_attr.StyleAttribute.extract(xml_elem):", "PRI-style")
brk("C04", "c04-ref-overrides", ELS, "          if not self.model_element.has_style(model_prop):\n            self.model_element.set_style(model_prop, value)", "          self.model_element.set_style(model_prop, value)", "PRI-style")
brk("C04", "c04-lang-parent-wins", ELS, "      self.lang = lang_attr_value if lang_attr_value is not None else parent_ctx.lang", "      self.lang = parent_ctx.lang if parent_ctx.lang is not None else lang_attr_value", "INH")
brk("C04", "c04-dur-end-min", ELS, "        self.desired_end = min(self.desired_begin + self.explicit_dur, self.implicit_begin + self.explicit_end)\n        self.desired_end = min(self.desired_begin + self.explicit_dur, self.implicit_begin + self.explicit_end)\n",
    "        self.desired_end = max(self.desired_begin + self.explicit_dur, self.implicit_begin + self.explicit_end)\n", "FIN-timing")
brk("C04", "c04-end-from-desired-begin", ELS, "        self.desired_end = self.implicit_begin + self.explicit_end\n\n      else:", "        self.desired_end = self.desired_begin + self.explicit_end\n\n      else:", "FIN-timing")
brk("C04", "c04-begin-ignores-implicit", ELS, "      self.desired_begin = self.implicit_begin + (self.explicit_begin if self.explicit_begin is not None else Fraction(0))", "      self.desired_begin = self.explicit_begin if self.explicit_begin is not None else self.implicit_begin", "FIN-timing")
brk("C04", "c04-style-error-escapes", ELS, "          self.model_element.set_style(model_prop, model_value)\n\n        except ValueError:\n\n          LOGGER.error(\"Error reading style property: %s\", prop.__name__)", "          self.model_element.set_style(model_prop, model_value)\n\n        except KeyError:\n\n          LOGGER.error(\"Error reading style property: %s\", prop.__name__)", "EXC-attr")
brk("C04", "c04-time-cache", "ttconv/imsc/attributes.py", "class BeginAttribute:", "_CACHE = {}\n\ndef _remember(k, v):\n  _CACHE[k] = v\n  return v\n\nclass BeginAttribute:", "STATE-alias")
ben("C04", "c04-benign-min-once", ELS, "        self.desired_end = min(self.desired_begin + self.explicit_dur, self.implicit_begin + self.explicit_end)\n        self.desired_end = min(self.desired_begin + self.explicit_dur, self.implicit_begin + self.explicit_end)\n",
    "        end_from_dur = self.desired_begin + self.explicit_dur\n        end_from_end = self.implicit_begin + self.explicit_end\n        self.desired_end = end_from_dur if end_from_dur <= end_from_end else end_from_end\n")
ben("C04", "c04-benign-lang-form", ELS, "      self.lang = lang_attr_value if lang_attr_value is not None else parent_ctx.lang", "      self.lang = parent_ctx.lang if lang_attr_value is None else lang_attr_value")

# ---------------------------------------------------------------------------------------- C05
ISP = "ttconv/imsc/style_properties.py"
brk("C05", "c05-px-scan-skips-animation", ELS, "    for element in all_elements:\n      for model_style_prop in element.iter_styles():", "    for element in all_elements:\n      if not element.has_children():\n        continue\n      for model_style_prop in element.iter_styles():", "TRAV")
brk("C05", "c05-decoration-none", ISP, "      attrib_value = \" \".join(actual_values)\n\n      xml_element.set(f\"{{{cls.ns}}}{cls.local_name}\", attrib_value)", "      attrib_value = \" \".join(actual_values) if actual_values else \"none\"\n\n      xml_element.set(f\"{{{cls.ns}}}{cls.local_name}\", attrib_value)", "SPECIAL-emit")
brk("C05", "c05-rubyreserve-haspx", ISP, "      return attrib_value.length is not None and attrib_value.length.units == styles.LengthType.Units.px", "      return False", None, "has_px no longer reports px ruby reserve")
ben("C05", "c05-benign-px-scan-flag", ELS, "      if has_px:\n        break\n\n    if model_doc.get_px_resolution() is not None and has_px:", "      if has_px is True:\n        break\n\n    if model_doc.get_px_resolution() is not None and has_px:")

# ---------------------------------------------------------------------------------------- C08
SL = "ttconv/scc/line.py"
brk("C08", "c08-dup-not-cleared", SL, "        context.previous_word = None\n        continue\n\n      self.time_code.add_frames()", "        continue\n\n      self.time_code.add_frames()", "DUP")
brk("C08", "c08-frame-before-dup", SL, "      if context.previous_word is not None and context.previous_word.value == scc_word.value and context.previous_word.is_code():\n        context.previous_word = None\n        continue\n\n      self.time_code.add_frames()\n",
    "      self.time_code.add_frames()\n\n      if context.previous_word is not None and context.previous_word.value == scc_word.value and context.previous_word.is_code():\n        context.previous_word = None\n        continue\n", None)
brk("C08", "c08-dup-text-too", SL, '      if context.previous_word is not None and context.previous_word.value == scc_word.value and context.previous_word.is_code():\n', '      if context.previous_word is not None and context.previous_word.value == scc_word.value:\n', "DUP")
brk("C08", "c08-dup-none-last", SL, '      if context.previous_word is not None and context.previous_word.value == scc_word.value and context.previous_word.is_code():\n', '      if context.previous_word.value == scc_word.value and context.previous_word.is_code() and context.previous_word is not None:\n', "DUP")
brk("C08", "c08-dup-or", SL, '      if context.previous_word is not None and context.previous_word.value == scc_word.value and context.previous_word.is_code():\n', '      if context.previous_word is not None and (context.previous_word.value == scc_word.value or context.previous_word.is_code()):\n', "DUP")
ben("C08", "c08-benign-dup-demorgan", SL, '      if context.previous_word is not None and context.previous_word.value == scc_word.value and context.previous_word.is_code():\n', '      previous_word = context.previous_word\n      if not (previous_word is None or previous_word.value != scc_word.value or not previous_word.is_code()):\n')
ben("C08", "c08-benign-dup-reordered", SL, '      if context.previous_word is not None and context.previous_word.value == scc_word.value and context.previous_word.is_code():\n', '      if context.previous_word is not None and context.previous_word.is_code() and scc_word.value == context.previous_word.value:\n')
brk("C08", "c08-dup-clears-type", SL, '        context.previous_word = None\n        continue\n\n      self.time_code.add_frames()', '        context.previous_word = None\n        context.previous_word_type = None\n        continue\n\n      self.time_code.add_frames()', "DUP")
brk("C08", "c08-channel2-text", SL, "        if context.current_channel is not SccChannel.CHANNEL_1:\n          # LOGGER.warning(\"Skip Caption Channel 2 code\")\n          continue\n\n", "", "ORD-channel")
brk("C08", "c08-ext-no-backspace", SL, "        elif isinstance(scc_code, SccExtendedCharacter):\n          context.backspace()\n", "        elif isinstance(scc_code, SccExtendedCharacter):\n", "ORD-ext")
brk("C08", "c08-rows-unsorted", "ttconv/scc/caption_paragraph.py", "    for row, caption_line in sorted(self._caption_lines.items()):", "    for row, caption_line in self._caption_lines.items():", "ORD-rows")
ben("C08", "c08-benign-sorted-key", "ttconv/scc/caption_paragraph.py", "    for row, caption_line in sorted(self._caption_lines.items()):", "    for row, caption_line in sorted(self._caption_lines.items(), key=lambda kv: kv[0]):")
ben("C08", "c08-benign-debug", SL, "    debug = str(self.time_code) + \"\\t\"\n\n    for scc_word in self.scc_words:", "    debug = f\"{self.time_code}\\t\"\n\n    for scc_word in self.scc_words:")

# ---------------------------------------------------------------------------------------- C13 / C03 / C02 (new rules)
brk("C13", "c13-lwsp-skips-nested-rt", ISD, "      if isinstance(isd_element, (model.P, model.Rt, model.Rtc)):", "      if isinstance(isd_element, (model.P, model.Rtc)):", "TYPE-GUARD")
brk("C13", "c13-lwsp-on-spans", ISD, "      if isinstance(isd_element, (model.P, model.Rt, model.Rtc)):", "      if isinstance(isd_element, (model.P, model.Span, model.Rt, model.Rtc)):", "TYPE-GUARD")
brk("C13", "c13-specified-showbackground", ISD, "        isd_element.get_style(styles.StyleProperties.ShowBackground) is styles.ShowBackgroundType.always\n      ):\n      return isd_element", "        element.get_style(styles.StyleProperties.ShowBackground) is styles.ShowBackgroundType.always\n      ):\n      return isd_element", "COMPUTED")
ben("C13", "c13-benign-guard-split", ISD, "      if isinstance(isd_element, (model.P, model.Rt, model.Rtc)):", "      if isinstance(isd_element, model.P) or isinstance(isd_element, (model.Rt, model.Rtc)):")
brk("C03", "c03-rt-always-half", ISD, "          (isinstance(element, model.Rt) and not isinstance(parent, model.Rtc))\n", "          isinstance(element, model.Rt)\n", "FIN-ruby")
ben("C03", "c03-benign-ruby-guard-form", ISD, "      if (\n          isinstance(element, model.Rtc) or\n          (isinstance(element, model.Rt) and not isinstance(parent, model.Rtc))\n      ):",
    "      if isinstance(element, (model.Rtc, model.Rt)) and not (isinstance(element, model.Rt) and isinstance(parent, model.Rtc)):")
ben2("C02", "c02-benign-anim-after-children", ISD, [("      # add signficant times for the children of the element \n\n      for child_element in iter(element):\n        compute_sig_times(interval_cache, content_interval, s_times, child_element, begin_time, end_time)\n", ""),
     ("      # add signficant times for any animation step \n", "      for child_element in iter(element):\n        compute_sig_times(interval_cache, content_interval, s_times, child_element, begin_time, end_time)\n\n      # add signficant times for any animation step \n")], "children visited before the animation steps")
brk("C02", "c02-bg-anim-filter", ISD, "    for _anim_step in region.iter_animation_steps():\n      return True\n", "    for _anim_step in region.iter_animation_steps():\n      if _anim_step.style_property in (styles.StyleProperties.Opacity, styles.StyleProperties.Display):\n        return True\n", "READ-COVER")

# ---------------------------------------------------------------------------------------- C18
brk("C18", "c18-iso6937-lookahead", "ttconv/stl/iso6937.py", "      b = bytes(byte_buffer[i:i+2])", "      b = bytes((byte_buffer[i], byte_buffer[i + 1]))", "IDX-lookahead")
brk("C18", "c18-rubyreserve-none-length", ISP, "      return attrib_value.length is not None and attrib_value.length.units == styles.LengthType.Units.px", "      return attrib_value.length.units == styles.LengthType.Units.px", "NUL-optfield")
ben("C18", "c18-benign-optfield-early-return", ISP, "      return attrib_value.length is not None and attrib_value.length.units == styles.LengthType.Units.px", "      if attrib_value.length is None:\n        return False\n\n      return attrib_value.length.units == styles.LengthType.Units.px")
ben("C18", "c18-benign-lookahead-form", "ttconv/srt/writer.py", "end = isds[i + 1][0] if i + 1 < len(isds) else None", "end = isds[i + 1][0] if i < len(isds) - 1 else None")
brk("C18", "c18-lookahead-off-by-one", "ttconv/srt/writer.py", "end = isds[i + 1][0] if i + 1 < len(isds) else None", "end = isds[i + 1][0] if i < len(isds) else None", "IDX-lookahead")



# ---------------------------------------------------------------------------------------- RAISE-interval
brk("C07", "c07-subms-strict-less", "ttconv/srt/writer.py", '    if end is not None and round(end, 3) <= round(begin, 3):\n', '    if end is not None and round(end, 3) < round(begin, 3):\n', "RAISE-interval")
brk("C07", "c07-subms-unrounded", "ttconv/vtt/writer.py", '    if end is not None and round(end, 3) <= round(begin, 3):\n', '    if end is not None and end <= begin:\n', "RAISE-interval")
brk("C18", "c18-subms-guard-log-only", "ttconv/srt/writer.py", '    if end is not None and round(end, 3) <= round(begin, 3):\n      # time codes have millisecond resolution: the cue would begin and end on the same time code\n      LOGGER.debug("Skipping an interval shorter than one millisecond.")\n      return\n', '    if end is not None and round(end, 3) <= round(begin, 3):\n      LOGGER.debug("Interval shorter than one millisecond.")\n', "RAISE-interval")
ben("C07", "c07-benign-subms-nested", "ttconv/srt/writer.py", '    if end is not None and round(end, 3) <= round(begin, 3):\n', '    if end is not None:\n     if not round(end, 3) > round(begin, 3):\n')
ben("C18", "c18-benign-subms-flipped", "ttconv/vtt/writer.py", '    if end is not None and round(end, 3) <= round(begin, 3):\n', '    if end is not None and round(begin, 3) >= round(end, 3):\n')

# ---------------------------------------------------------------------------------------- rules added after round 5
brk("C12", "c12-parse-ndf-nominal", "ttconv/time_code.py", "    if match is not None:\n      return SmpteTimeCode(int(match.group('ndf_h')),", "    if match is not None:\n      if base_frame_rate.denominator == 1001:\n        base_frame_rate = base_frame_rate * Fraction(1001, 1000)\n      return SmpteTimeCode(int(match.group('ndf_h')),", "FIN-parse")
brk("C04", "c04-xmlspace-error-default", "ttconv/imsc/attributes.py", '        LOGGER.error("Bad xml:space value (%s)", value)\n', '        LOGGER.error("Bad xml:space value (%s)", value)\n        r = model.WhiteSpaceHandling.DEFAULT\n', "EXC-fallback")
brk("C08", "c08-midrow-underline-sticky", "ttconv/scc/context.py", '      self.current_font_style = font_style\n      self.current_text_decoration = text_decoration\n', '      self.current_font_style = font_style\n      if text_decoration is not None:\n        self.current_text_decoration = text_decoration\n', "STYLE-complete")
brk("C05", "c05-alpha-one-digit", "ttconv/imsc/style_properties.py", '      color_str = f"{color_str}{model_value.components[3]:02x}"', '      color_str = f"{color_str}{model_value.components[3]:x}"', "FMT-color")
brk("C07", "c07-finish-last-only", "ttconv/vtt/writer.py", '    for paragraph in [p for p in self._paragraphs if p.get_end() is None]:\n', '    for paragraph in [p for p in self._paragraphs[-1:] if p.get_end() is None]:\n', "PAIR-default-end")
ben("C07", "c07-benign-finish-listcopy", "ttconv/vtt/writer.py", '    for paragraph in [p for p in self._paragraphs if p.get_end() is None]:\n', '    for paragraph in list(self._paragraphs):\n      if paragraph.get_end() is not None:\n        continue\n')

# ---------------------------------------------------------------------------------------- rules added after round 7
LCD = "ttconv/filters/doc/lcd.py"
brk("C16", "c16-fingerprint-begin-twice", LCD, "          region.get_begin() or 0,\n          region.get_end(),", "          region.get_begin() or 0,\n          region.get_begin(),", "LINT-l")
brk("C16", "c16-anim-snapshot-set", "ttconv/filters/remove_animations.py", "    for step in list(element.iter_animation_steps()):", "    for step in set(element.iter_animation_steps()):", "LIVE")
ben("C16", "c16-benign-anim-snapshot-tuple", "ttconv/filters/remove_animations.py", "    for step in list(element.iter_animation_steps()):", "    for step in tuple(element.iter_animation_steps()):")
brk("C02", "c02-end-skips-same-ms", "ttconv/vtt/writer.py", "    end = isds[i + 1][0] if i + 1 < len(isds) else None\n", "    j = i + 1\n    while j < len(isds) and round(isds[j][0], 3) <= round(begin, 3):\n      j += 1\n    end = isds[j][0] if j < len(isds) else None\n", "SEQ-end")
ben("C02", "c02-benign-end-via-index-local", "ttconv/vtt/writer.py", "    end = isds[i + 1][0] if i + 1 < len(isds) else None\n", "    j = i + 1\n    end = None\n    if j < len(isds):\n      end = isds[j][0]\n")
brk("C03", "c03-anim-against-parent", ISD, "        anim_step.begin,\n        anim_step.end,\n        begin_time,\n        end_time\n", "        anim_step.begin,\n        anim_step.end,\n        parent_computed_begin,\n        parent_computed_end\n", "DEP-frame")
brk("C04", "c04-chained-styles-aliased", ELS, "        for style_prop, value in self.style_elements[style_ref].styles.items():\n          style_element.styles.setdefault(style_prop, value)", "        referenced = self.style_elements[style_ref].styles\n        if len(style_element.styles) == 0:\n          style_element.styles = referenced\n          continue\n        for style_prop, value in referenced.items():\n          style_element.styles.setdefault(style_prop, value)", "STATE-share")
ben("C04", "c04-benign-chained-styles-copied", ELS, "        for style_prop, value in self.style_elements[style_ref].styles.items():\n          style_element.styles.setdefault(style_prop, value)", "        referenced = self.style_elements[style_ref].styles\n        if len(style_element.styles) == 0:\n          style_element.styles = dict(referenced)\n          continue\n        for style_prop, value in referenced.items():\n          style_element.styles.setdefault(style_prop, value)")
brk("C08", "c08-copy-lines-line-style", "ttconv/scc/caption_paragraph.py", "      for orig_text in orig_line.get_texts():\n        new_text = SccCaptionText(orig_text.get_text())\n        for style_type, style_value in orig_text.get_style_properties().items():", "      line_props = orig_line.get_current_text().get_style_properties()\n      for orig_text in orig_line.get_texts():\n        new_text = SccCaptionText(orig_text.get_text())\n        for style_type, style_value in line_props.items():", "ITEM-source")
ben("C08", "c08-benign-copy-lines-local", "ttconv/scc/caption_paragraph.py", "        for style_type, style_value in orig_text.get_style_properties().items():", "        text_props = orig_text.get_style_properties()\n        for style_type, style_value in text_props.items():")
DF = "ttconv/stl/datafile.py"
brk("C09", "c09-region-reuse-ignores-align", DF, "    r_display_align: styles.DisplayAlignType = r.get_style(styles.StyleProperties.DisplayAlign)\n    assert r_display_align is not None\n    if r_display_align != display_align:\n      continue\n", "    assert r.get_style(styles.StyleProperties.DisplayAlign) is not None\n", "FIND-key")
brk("C09", "c09-note-handler-resumes-late", "ttconv/stl/tf.py", '  return ("�", error.end)', '  return ("�", error.end + 1)', "FIN-resume")
brk("C18", "c18-note-handler-logs-range", "ttconv/stl/tf.py", 'hex(error.object[error.start]))', '" ".join(hex(error.object[i]) for i in range(error.start, error.end)))', "FIN-resume")
ben("C09", "c09-benign-note-handler-local", "ttconv/stl/tf.py", '  return ("�", error.end)', '  resume_at = error.end\n  return ("�", resume_at)')
brk("C10", "c10-parser-not-closed", "ttconv/srt/reader.py", "        parser.feed(subtitle_text)\n        parser.close()\n", "        parser.feed(subtitle_text)\n", "PAIR-close")
brk("C10", "c10-endtag-unknown-ignored", "ttconv/srt/reader.py", "  def handle_endtag(self, tag):\n", "  def handle_endtag(self, tag):\n    if tag.lower() not in (\"b\", \"i\", \"u\", \"font\"):\n      return\n\n", "PAIR-span")
brk("C12", "c12-is-drop-frame-two-rates", "ttconv/time_code.py", "    return self._frame_rate.denominator == 1001\n", "    return self._frame_rate in (FPS_29_97, FPS_59_94)\n", "AGREE-dropmode")
ben("C12", "c12-benign-is-drop-frame-local", "ttconv/time_code.py", "    return self._frame_rate.denominator == 1001\n", "    denominator = self._frame_rate.denominator\n    return denominator == 1001\n")
brk("C14", "c14-content-interval-text-only", ISD, "      if isinstance(element, (model.Br, model.Span)) or \\\n", "      if isinstance(element, model.Text) or \\\n", "COVER-content")
ben("C14", "c14-benign-content-interval-split", ISD, "      if isinstance(element, (model.Br, model.Span)) or \\\n", "      if isinstance(element, model.Br) or isinstance(element, model.Span) or \\\n")
MODEL = "ttconv/model.py"
brk("C15", "c15-remove-last-from-next", MODEL, "      self._last_child = child._previous_sibling\n", "      self._last_child = child._next_sibling\n", "FIN-links")
brk("C15", "c15-push-no-back-link", MODEL, "    child._previous_sibling = self._last_child\n    child._next_sibling = None\n", "    child._previous_sibling = None\n    child._next_sibling = None\n", "FIN-links")
ben("C15", "c15-benign-remove-locals", MODEL, "    if child._previous_sibling is not None:\n      child._previous_sibling._next_sibling = child._next_sibling\n\n    if child._next_sibling is not None:\n      child._next_sibling._previous_sibling = child._previous_sibling\n", "    before = child._previous_sibling\n    after = child._next_sibling\n\n    if before is not None:\n      before._next_sibling = after\n\n    if after is not None:\n      after._previous_sibling = before\n")
brk("C17", "c17-disassembly-wrong-lookup", "ttconv/scc/disassembly.py", "        disassembly_code += str(extended_char.get_channel(scc_word.value))", "        disassembly_code += str(spec_char.get_channel(scc_word.value))", "NUL-known")
brk("C18", "c18-vtt-whitelist-assigned", "ttconv/vtt/writer.py", "    if self._config.text_align:\n      supported_styles.update({", "    if self._config.text_align:\n      supported_styles = ({", "COND-supported")
brk("C18", "c18-haspx-specified-value", ELS, "has_px(animation_step.value):", "has_px(element.get_style(animation_step.style_property)):", "NUL-arg")
brk("C19", "c19-config-file-merged", "ttconv/tt.py", "      json_config_data = json.load(json_file)\n", "      json_file_data = json.load(json_file)\n    if json_config_data is None:\n      json_config_data = json_file_data\n    else:\n      json_config_data.update(json_file_data)\n", "FIN-config")
ben("C19", "c19-benign-config-file-local", "ttconv/tt.py", "      json_config_data = json.load(json_file)\n", "      json_file_data = json.load(json_file)\n    json_config_data = json_file_data\n")

# ---------------------------------------------------------------------------------------- rules added after round 8
UT = "ttconv/utils.py"
IU = "ttconv/imsc/utils.py"
IA = "ttconv/imsc/attributes.py"
brk("C04", "c04-color-prefix-match", UT, "  m = _HEX_COLOR_RE.fullmatch(attr_value)", "  m = _HEX_COLOR_RE.match(attr_value)", "REGEX-whole")
brk("C04", "c04-frame-offset-unanchored", IU, '_OFFSET_FRAME_RE = re.compile(r"^(\\d+(?:\\.\\d+)?)f$")', '_OFFSET_FRAME_RE = re.compile(r"^(\\d+(?:\\.\\d+)?)f")', "REGEX-whole")
brk("C04", "c04-clock-frames-two-digits", IU, '_CLOCK_TIME_FRAMES_RE = re.compile(r"^(\\d{2,}):(\\d\\d):(\\d\\d):(\\d{2,})$")', '_CLOCK_TIME_FRAMES_RE = re.compile(r"^(\\d{2,}):(\\d\\d):(\\d\\d):(\\d{2})$")', "FIN-regex")
ben("C04", "c04-benign-length-re-equivalent", IU, '_LENGTH_RE = re.compile(r"^((?:\\+|\\-)?\\d*(?:\\.\\d+)?)(px|em|c|%|rh|rw)$")', '_LENGTH_RE = re.compile(r"^([+-]?[0-9]*(?:\\.[0-9]+)?)(px|em|rh|rw|c|%)$")')
brk("C11", "c11-int-re-no-zero", "ttconv/vtt/reader.py", '_VTT_INT_RE = re.compile(r"(-?\\d{1,20})")', '_VTT_INT_RE = re.compile(r"(-?[1-9]\\d{0,19})")', "FIN-regex")
brk("C13", "c13-lwsp-unicode-spaces", ISD, 'trimmed_text = re.sub(r"[\\t\\r\\n ]+", " ", node.get_text())', 'trimmed_text = re.sub(r"\\s+", " ", node.get_text())', "FIN-regex")
ben("C13", "c13-benign-lwsp-class-order", ISD, 'trimmed_text = re.sub(r"[\\t\\r\\n ]+", " ", node.get_text())', 'trimmed_text = re.sub(r"[ \\n\\r\\t]+", " ", node.get_text())')
brk("C12", "c12-df-pattern-bare-dot", "ttconv/time_code.py", "'(:|;|\\\\.|,)'.join", "'(:|;|.|,)'.join", "LINT-m")
brk("C09", "c09-tnb-zero-divides", "ttconv/stl/datafile.py", "    if self.tti_count < 1:\n      LOGGER.error(\"Invalid TNB field value: %s\", self.gsi.TNB)\n      self.tti_count = sys.maxsize\n", "", "DIV-parsed")
ben("C09", "c09-benign-tnb-guard-form", "ttconv/stl/datafile.py", "    if self.tti_count < 1:\n      LOGGER.error(\"Invalid TNB field value: %s\", self.gsi.TNB)", "    if self.tti_count <= 0:\n      LOGGER.error(\"Invalid TNB field value: %s\", self.gsi.TNB)")
brk("C09", "c09-line-count-last-block", "ttconv/stl/datafile.py", "line_count = tf.line_count(self.tti_tf, is_double_height_characters)", "line_count = tf.line_count(tti.TF, is_double_height_characters)", "ACC-raw")
brk("C07", "c07-default-filter-break", "ttconv/filters/isd/default_style_properties.py", "        if parent_value is not None and parent_value is not value:\n          continue", "        if parent_value is not None and parent_value is not value:\n          break", "LOOP-break")
brk("C19", "c19-unknown-filter-break", "ttconv/tt.py", '      LOGGER.error("Unknown filter: %s", filter_name)\n      continue', '      LOGGER.error("Unknown filter: %s", filter_name)\n      break', "LOOP-break")
brk("C05", "c05-position-haspx-and", ISP, "      return attrib_value.h_offset.units == styles.LengthType.Units.px or \\\n", "      return attrib_value.h_offset.units == styles.LengthType.Units.px and \\\n", "FIN-haspx")
brk("C05", "c05-from-seconds-fractional", "ttconv/time_code.py", "    return SmpteTimeCode.from_frames(int(frames), frame_rate)", "    return SmpteTimeCode.from_frames(frames, frame_rate)", "FIN-wholeframes")
brk("C05", "c05-format-number-strips-zeros", IU, 's = f"{value:.12f}".rstrip("0").rstrip(".")', 's = f"{value:.12f}".rstrip("0.")', "FMT-number")
brk("C05", "c05-frames-syntax-noninteger-rate", "ttconv/imsc/writer.py", "        if config.time_format is TimeExpressionSyntaxEnum.clock_time_with_frames and config.fps.denominator != 1:\n          raise ValueError(\"Time expressions cannot be HH:MM:SS:FF if the `frame_rate` parameter is not an integer\")\n", "", "FMT-time")
brk("C04", "c04-chained-refs-cleared-late", ELS, "      while len(style_element.style_refs) > 0:\n\n        style_ref = style_element.style_refs.pop()\n", "      for style_ref in reversed(list(style_element.style_refs)):\n", "TERM-refs")
brk("C03", "c03-initial-override-not-computed", ISD, "          initial_value = doc.get_initial_value(initial_style)\n", "          isd_element.set_style(initial_style, doc.get_initial_value(initial_style))\n          continue\n", "PAIR-compute")
brk("C06", "c06-nested-div-overwrites", "ttconv/filters/isd/merge_paragraphs.py", "        paragraphs = paragraphs + self._get_paragraphs(child)", "        paragraphs = self._get_paragraphs(child)", "ORD-docorder")
ben("C06", "c06-benign-get-paragraphs-stack", "ttconv/filters/isd/merge_paragraphs.py", "    for child in element:\n      if isinstance(child, Div):\n        paragraphs = paragraphs + self._get_paragraphs(child)\n      elif isinstance(child, P):\n        paragraphs.append(child)\n",
    "    pending = list(reversed(list(element)))\n    while pending:\n      child = pending.pop()\n      if isinstance(child, Div):\n        pending.extend(reversed(list(child)))\n      elif isinstance(child, P):\n        paragraphs.append(child)\n")
brk("C16", "c16-replace-regions-stops-at-p", LCD, "  for child in element:\n    _replace_regions(child, region_aliases)", "  if isinstance(element, P):\n    return\n  for child in element:\n    _replace_regions(child, region_aliases)", "ORD-repoint")
brk("C15", "c15-detach-root-region-only", MODEL, "    for e in self.dfs_iterator():\n      if doc is None:\n        e._region = None\n      e._doc = doc", "    if doc is None:\n      self._region = None\n    for e in self.dfs_iterator():\n      e._doc = doc", "PAIR-detach")
brk("C17", "c17-find-code-dispatch-misses-attr", "ttconv/scc/word.py", "      return SccControlCode.find(self.value) or \\\n        SccAttributeCode.find(self.value) or \\\n", "      return SccControlCode.find(self.value) or \\\n        (SccAttributeCode.find(self.value) if self.byte_1 & 0x07 == 0 else None) or \\\n", "CLS")

# ---------------------------------------------------------------------------------------- rules added after round 9
brk("C05", "c05-framerate-only-for-frames", ELS, "    if frame_rate is not None:\n      imsc_attr.FrameRateAttribute.set(tt_element, frame_rate)", "    if frame_rate is not None and time_expression_syntax is imsc_attr.TimeExpressionSyntaxEnum.frames:\n      imsc_attr.FrameRateAttribute.set(tt_element, frame_rate)", "AGREE-framerate")
brk("C06", "c06-escape-table-amp-last", "ttconv/vtt/style.py", '  return text.replace("&", "&amp;").replace("<", "&lt;").replace(">", "&gt;")', '  for char, escape in {"<": "&lt;", ">": "&gt;", "&": "&amp;"}.items():\n    text = text.replace(char, escape)\n  return text', "TAINT")
ben("C07", "c07-benign-escape-table-amp-first", "ttconv/vtt/style.py", '  return text.replace("&", "&amp;").replace("<", "&lt;").replace(">", "&gt;")', '  for char, escape in (("&", "&amp;"), ("<", "&lt;"), (">", "&gt;")):\n    text = text.replace(char, escape)\n  return text')
brk("C09", "c09-dropcount-nominal-fifteenth", "ttconv/time_code.py", "      drop_frames_per_minute = round(60 * (ndf_frame_rate - self._frame_rate))  # 2 at 29.97 fps\n\n      nb_of_minute_tens = self._hours", "      drop_frames_per_minute = round(ndf_frame_rate / 12)\n\n      nb_of_minute_tens = self._hours", "FIN-dropcount")
brk("C10", "c10-ms-leading-zeros", "ttconv/srt/reader.py", "        Fraction(int(m.group('begin_ms')), 1000)", "        Fraction(\"0.\" + str(int(m.group('begin_ms'))))", "FIN-timeexpr")
brk("C14", "c14-background-from-ttml-default", ISD, "    if bg_color is not None:\n      if bg_color.ident is not styles.ColorType.Colorimetry.RGBA8:", "    if bg_color is None:\n      return False\n    if bg_color is not None:\n      if bg_color.ident is not styles.ColorType.Colorimetry.RGBA8:", "ABSENT-style")
brk("C16", "c16-mergekey-begin-not-normalised", LCD, "          region.get_begin() or 0,\n", "          region.get_begin(),\n", "FIN-mergekey")
ben("C16", "c16-benign-mergekey-conditional", LCD, "          region.get_begin() or 0,\n", "          region.get_begin() if region.get_begin() is not None else 0,\n")
brk2("C01", "c01-display-prune-before-initial", ISD, [("    # prune element is display is \"none\"\n\n    if isd_element.get_style(styles.StyleProperties.Display) is styles.DisplayType.none:\n      return None\n\n", ""), ("    # inherited styling\n", "    if isd_element.get_style(styles.StyleProperties.Display) is styles.DisplayType.none:\n      return None\n\n    # inherited styling\n")], "ORD-style")
brk("C03", "c03-specified-overwrites-animated", ISD, "      if isd_element.has_style(spec_style_prop):\n        # skip if the style has already been set\n        continue\n", "", "PRI-style")
ben("C03", "c03-benign-specified-guard-nested", ISD, "      if isd_element.has_style(spec_style_prop):\n        # skip if the style has already been set\n        continue\n\n      styles_to_be_computed.add(spec_style_prop)\n      isd_element.set_style(spec_style_prop, element.get_style(spec_style_prop))", "      if not isd_element.has_style(spec_style_prop):\n        styles_to_be_computed.add(spec_style_prop)\n        isd_element.set_style(spec_style_prop, element.get_style(spec_style_prop))")
brk("C10", "c10-handle-data-splitlines", "ttconv/srt/reader.py", '    lines = data.split("\\n")', '    lines = data.splitlines()', "ORD-br")

# ---------------------------------------------------------------------------------------- rules added after round 10
brk("C05", "c05-color-alpha-or-default", UT, "        int(m.group(4), 16) if m.group(4) else 255\n", "        int(m.group(4) or \"ff\", 16) or 255\n", "FIN-color")
ben("C05", "c05-benign-color-alpha-local", UT, "        int(m.group(4), 16) if m.group(4) else 255\n", "        255 if not m.group(4) else int(m.group(4), 16)\n")
brk("C19", "c19-color-dec-prefix", UT, "  m = _DEC_COLOR_RE.fullmatch(attr_value)", "  m = _DEC_COLOR_RE.match(attr_value)", "FIN-color")
brk("C09", "c09-text-nfc", MODEL, "      raise TypeError(\"Text must be a string\")\n    self._text = text\n", "      raise TypeError(\"Text must be a string\")\n    import unicodedata\n    self._text = unicodedata.normalize(\"NFC\", text)\n", "ID-text")
brk("C10", "c10-text-strip", MODEL, "      raise TypeError(\"Text must be a string\")\n    self._text = text\n", "      raise TypeError(\"Text must be a string\")\n    self._text = text.strip(\"\\u200e\")\n", "ID-text")
ben("C10", "c10-benign-text-local", MODEL, "      raise TypeError(\"Text must be a string\")\n    self._text = text\n", "      raise TypeError(\"Text must be a string\")\n    value = text\n    self._text = value\n")
brk("C01", "c01-display-validate-by-value", SPY, "      return isinstance(value, DisplayType) \n", "      return value in [m.value for m in DisplayType] or isinstance(value, DisplayType)\n", "VAL-strict")
brk("C13", "c13-length-units-any", SPY, "    if not isinstance(self.units, LengthType.Units):\n      raise ValueError(\"Invalid units\")\n", "    if self.units is None:\n      raise ValueError(\"Invalid units\")\n", "VAL-strict")
ben("C13", "c13-benign-length-units-type", SPY, "    if not isinstance(self.units, LengthType.Units):\n      raise ValueError(\"Invalid units\")\n", "    units_ok = isinstance(self.units, LengthType.Units)\n    if not units_ok:\n      raise ValueError(\"Invalid units\")\n")
brk("C02", "c02-copy-end-truthy", MODEL, "    dest.set_begin(self.get_begin())\n    dest.set_end(self.get_end())\n    dest.set_id(self.get_id())", "    dest.set_begin(self.get_begin())\n    if self.get_end():\n      dest.set_end(self.get_end())\n    dest.set_id(self.get_id())", "LINT-n")
ben("C02", "c02-benign-copy-end-not-none", MODEL, "    dest.set_begin(self.get_begin())\n    dest.set_end(self.get_end())\n    dest.set_id(self.get_id())", "    dest.set_begin(self.get_begin())\n    if self.get_end() is not None:\n      dest.set_end(self.get_end())\n    else:\n      dest.set_end(None)\n    dest.set_id(self.get_id())")
brk("C03", "c03-chained-first-wins", ELS, "        style_ref = style_element.style_refs.pop()\n", "        style_ref = style_element.style_refs.pop(0)\n", "FIN-chain")
brk("C04", "c04-rtc-needs-four", MODEL, "    if len(cs) > 2 and isinstance(cs[0], Rp) and isinstance(cs[-1], Rp):", "    if len(cs) > 3 and isinstance(cs[0], Rp) and isinstance(cs[-1], Rp):", "FIN-rubykids")
ben("C04", "c04-benign-rtc-ge-three", MODEL, "    if len(cs) > 2 and isinstance(cs[0], Rp) and isinstance(cs[-1], Rp):", "    if len(cs) >= 3 and isinstance(cs[-1], Rp) and isinstance(cs[0], Rp):")
brk("C07", "c07-merge-skips-single-div", "ttconv/filters/isd/merge_paragraphs.py", "        if len(paragraphs) <= 1:\n          continue\n", "        if len(paragraphs) <= 1 or len(original_divs) == 1 and len(original_divs[0]) <= 1:\n          continue\n", "FIN-merge")
brk("C06", "c06-merge-br-after-last", "ttconv/filters/isd/merge_paragraphs.py", "          if index < len(paragraphs) - 1:\n", "          if index < len(paragraphs):\n", "FIN-merge")
brk("C13", "c13-prune-only-when-lwsp", ISD, "        _process_lwsp(text_node_list)\n        _prune_empty_spans(isd_element)\n", "        _process_lwsp(text_node_list)\n        if text_node_list:\n          _prune_empty_spans(isd_element)\n", "FIN-lwsp")
brk("C11", "c11-cref-no-hash", "ttconv/vtt/tokenizer.py", "      elif state is _State.data_cref:\n        if c == ord(\";\"):", "      elif state is _State.data_cref:\n        if c == ord(\"#\"):\n          result.extend(buffer)\n          result.append(\"#\")\n          state = _State.data\n        elif c == ord(\";\"):", "FIN-tokens")
brk("C14", "c14-from-model-after-last-time", ISD, "    isd = ISD(doc)\n\n    cache = (_SingleRegionDocumentCache({}, doc, None),) if sig_times is None else sig_times.cache()\n", "    isd = ISD(doc)\n\n    if sig_times is not None and len(sig_times) > 0 and offset > sig_times[-1]:\n      return isd\n\n    cache = (_SingleRegionDocumentCache({}, doc, None),) if sig_times is None else sig_times.cache()\n", "FIN-cacheskip")
brk("C01", "c01-sigtimes-skip-hidden-region", ISD, "      for region in doc.iter_regions():\n        single_regions_docs.append(_clone_doc_with_one_region(doc, region.get_id()))", "      for region in doc.iter_regions():\n        if region.get_style(styles.StyleProperties.Display) is styles.DisplayType.none:\n          continue\n        single_regions_docs.append(_clone_doc_with_one_region(doc, region.get_id()))", "COVER-regions")
brk("C18", "c18-prune-childless-early", ISD, "    # create an ISD element\n", "    if not element.has_children() and not isinstance(element, (model.Region, model.Br, model.Text)):\n      return None\n\n    # create an ISD element\n", "PRUNE-sites")
ben("C18", "c18-benign-prune-childless-span-early", ISD, "    # create an ISD element\n", "    if not element.has_children() and isinstance(element, (model.Span, model.P, model.Div, model.Body)):\n      return None\n\n    # create an ISD element\n")
brk("C03", "c03-position-right-edge-from-container", ISD, "          value=100 - extent.width.value - h_offset.value,\n", "          value=100 - h_offset.value,\n", "FIN-position")
ben("C03", "c03-benign-position-right-edge-regrouped", ISD, "          value=100 - extent.width.value - h_offset.value,\n", "          value=(100 - extent.width.value) - h_offset.value,\n")
brk("C16", "c16-position-reads-origin", ISD, "      extent : styles.ExtentType = element.get_style(styles.StyleProperties.Extent)\n\n      assert extent.height.units", "      extent : styles.ExtentType = element.get_style(styles.StyleProperties.Extent)\n      old_origin = element.get_style(styles.StyleProperties.Origin)\n      if old_origin.x is None:\n        return\n\n      assert extent.height.units", "ORD-compute")
brk("C10", "c10-parser-not-closed", SRTR, "        parser = _TextParser(current_p, line_index)\n        parser.feed(subtitle_text)\n        parser.close()\n", "        _TextParser(current_p, line_index).feed(subtitle_text)\n", "PAIR-close")
brk2("C08", "c08-control-field2-has-channel", CC + "control_codes.py", [("from ttconv.scc.codes import SccCode\n", "from ttconv.scc.codes import SccCode, SccChannel\n"), ("  def get_values(self) -> typing.Tuple[int, int, int, int]:", "  def get_channel(self, value: int):\n    if value in (self._channel_1, self._channel_1_field_2):\n      return SccChannel.CHANNEL_1\n    if value in (self._channel_2, self._channel_2_field_2):\n      return SccChannel.CHANNEL_2\n    return None\n\n  def get_values(self) -> typing.Tuple[int, int, int, int]:")], "FIN-channel")
brk("C17", "c17-line-skips-channel-2-only", SL, "        if caption_channel is not SccChannel.CHANNEL_1:", "        if caption_channel is SccChannel.CHANNEL_2:", "ORD-channel")

ben("C04", "c04-benign-parse-length-memo", IU, "def parse_length(attr_value: str) -> typing.Tuple[float, str]:\n  \'\'\'Parses the TTML length in `attr_value` into a (length, units) tuple\'\'\'\n\n  m = _LENGTH_RE.match(attr_value)\n\n  if m:\n\n    return (float(m.group(1)), m.group(2))\n",
    "_LENGTH_MEMO = {}\n\ndef parse_length(attr_value: str) -> typing.Tuple[float, str]:\n  \'\'\'Parses the TTML length in `attr_value` into a (length, units) tuple\'\'\'\n\n  if type(attr_value) is str and attr_value in _LENGTH_MEMO:\n    return _LENGTH_MEMO[attr_value]\n\n  m = _LENGTH_RE.match(attr_value)\n\n  if m:\n\n    rslt = (float(m.group(1)), m.group(2))\n    if type(attr_value) is str:\n      _LENGTH_MEMO[attr_value] = rslt\n    return rslt\n")
brk("C05", "c05-time-format-memo-without-rate", IA, "def to_time_format(context: TemporalAttributeWritingContext, time: Fraction) -> str:\n  if context.time_expression_syntax is TimeExpressionSyntaxEnum.clock_time or context.frame_rate is None:\n    return str(ClockTime.from_seconds(time))\n",
    "_TIME_MEMO = {}\n\ndef to_time_format(context: TemporalAttributeWritingContext, time: Fraction) -> str:\n  key = (context.time_expression_syntax, time)\n  if key not in _TIME_MEMO:\n    _TIME_MEMO[key] = _to_time_format(context, time)\n  return _TIME_MEMO[key]\n\ndef _to_time_format(context: TemporalAttributeWritingContext, time: Fraction) -> str:\n  if context.time_expression_syntax is TimeExpressionSyntaxEnum.clock_time or context.frame_rate is None:\n    return str(ClockTime.from_seconds(time))\n", "STATE-alias")
ben("C05", "c05-benign-time-format-memo-with-rate", IA, "def to_time_format(context: TemporalAttributeWritingContext, time: Fraction) -> str:\n  if context.time_expression_syntax is TimeExpressionSyntaxEnum.clock_time or context.frame_rate is None:\n    return str(ClockTime.from_seconds(time))\n",
    "_TIME_MEMO = {}\n\ndef to_time_format(context: TemporalAttributeWritingContext, time: Fraction) -> str:\n  key = (context.time_expression_syntax, context.frame_rate, time)\n  if key not in _TIME_MEMO:\n    _TIME_MEMO[key] = _to_time_format(context, time)\n  return _TIME_MEMO[key]\n\ndef _to_time_format(context: TemporalAttributeWritingContext, time: Fraction) -> str:\n  if context.time_expression_syntax is TimeExpressionSyntaxEnum.clock_time or context.frame_rate is None:\n    return str(ClockTime.from_seconds(time))\n")

brk("C15", "c15-copy-to-self-guard-dropped", MODEL, "    if dest is self:\n      return\n\n    dest.set_begin(self.get_begin())", "    dest.set_begin(self.get_begin())", "LIVE-alias")
ben("C15", "c15-benign-copy-to-self-guard-swapped", MODEL, "    if dest is self:\n      return\n\n    dest.set_begin(self.get_begin())", "    if self is dest:\n      return\n\n    dest.set_begin(self.get_begin())")

brk("C11", "c11-voice-tag-opens-no-span", VTTR, "    if tag.startswith(\"rt\") and self.ruby_rtc is not None:", "    if tag == \"v\":\n      return\n\n    if tag.startswith(\"rt\") and self.ruby_rtc is not None:", "PAIR-span")

VARIANTS = V

# ---------------------------------------------------------------------------------------- rules added before round 12
brk("C18", "c18-strict-set-lang", MODEL, "    self._lang = str(language)\n", "    if not isinstance(language, str):\n      raise TypeError(\"Argument must be a string\")\n    self._lang = language\n", "NUL-optarg",
    "the element's language setter rejects non-strings; the WebVTT reader passes the Optional annotation of a <lang> tag unchecked")
brk("C04", "c04-par-implicit-end-own-axis", ELS, "max(self.implicit_end, self.desired_begin + child_element.desired_end)", "max(self.implicit_end, child_element.desired_end)", "FRAME-time",
    "the defect repaired by b5a6776: a child's end, relative to the element, compared with the element's implicit end, relative to the parent")
brk("C04", "c04-seq-implicit-end-own-axis", ELS, "child_element.desired_end + self.desired_begin\n", "child_element.desired_end\n", "FRAME-time", "the sequential branch stores a child-relative time as the implicit end")
brk("C04", "c04-end-from-desired-begin", ELS, "        self.desired_end = self.implicit_begin + self.explicit_end\n\n      else:", "        self.desired_end = parent_ctx.desired_begin + self.explicit_end\n\n      else:", "FRAME-time",
    "end measured from the parent's begin on the grandparent's axis")
ben("C04", "c04-benign-par-implicit-end-swapped", ELS, "max(self.implicit_end, self.desired_begin + child_element.desired_end)", "max(child_element.desired_end + self.desired_begin, self.implicit_end)", "operands swapped")
brk("C03", "c03-anim-first-wins", ISD, "    for anim_step in element.iter_animation_steps():\n\n", "    for anim_step in element.iter_animation_steps():\n\n      if isd_element.has_style(anim_step.style_property):\n        continue\n\n", "ORD-animlast",
    "of two overlapping set steps the first wins")
brk("C01", "c01-display-before-animation", ISD, "      activity_cache[element] = True\n", "      if element.get_style(styles.StyleProperties.Display) is styles.DisplayType.none:\n        activity_cache[element] = False\n        return None\n\n      activity_cache[element] = True\n", "PRUNE-sites",
    "specified display=none prunes before the set steps are applied")
brk("C13", "c13-prev-lwsp-space-only", ISD, 'prev_text[-1] in ("\\t", "\\r", "\\n", " ")', 'prev_text[-1] == " "', "FIN-lwsp", "a preserved tab / line feed before default white space no longer counts as white space")
brk("C04", "c04-prev-lwsp-space-only", ISD, 'prev_text[-1] in ("\\t", "\\r", "\\n", " ")', 'prev_text[-1] == " "', "FIN-lwsp", "shared with C13")
brk("C11", "c11-drop-blank-string-tokens", VTTR, "  def _handle_string(self, token: StringToken):\n", "  def _handle_string(self, token: StringToken):\n    if len(token.value.strip()) == 0:\n      return\n\n", "KEEP-text", "white space between two tags is dropped")
brk("C12", "c12-last-frame-label-refused", IU, "    if frames >= frame_rate:\n", "    if frames >= frame_rate - 1:\n", "FIN-timeparse", "the last frame label of a second is refused")
brk("C19", "c19-max-row-count-digit-strings", "ttconv/stl/config.py", "  if isinstance(value, int) and value > 0:\n    return value\n", "  if isinstance(value, str) and _MNR_PATTERN.match(value):\n    return int(value)\n\n  if isinstance(value, int) and value > 0:\n    return value\n", "FIN-decoder", "digit strings, also '0', accepted")
brk("C16", "c16-falsy-config-default", "ttconv/config.py", "      field_value = config_dict.get(field.name, cls.get_field_default(field))\n", "      field_value = config_dict.get(field.name)\n      if not field_value and field_value is not False:\n        field_value = cls.get_field_default(field)\n", "LINT-o", "safe_area 0 becomes the default 10")
