"""CLI: python -m ttverif check <Cxx> [--tier quick|thorough] [--root DIR]
         python -m ttverif replay <path>
         python -m ttverif all [--tier ...]
         python -m ttverif selftest [Cxx ...] [--jobs N]
Exit codes: 0 property held on everything analysed; 1 VIOLATION; 2 ANALYSIS-ERROR.
"""
from __future__ import annotations

import argparse
import importlib
import json
import os
import sys
import traceback

from .core import AnalysisError, DEFAULT_ROOT, Index
from .report import Ctx, finish

PROPS = [f"C{i:02d}" for i in range(1, 20)]


def run_check(prop: str, tier: str, root: str, only_key=None, quiet=False) -> int:
  try:
    mod = importlib.import_module(f"ttverif.props.{prop.lower()}")
  except ModuleNotFoundError:
    print(f"ANALYSIS-ERROR property={prop}: no checker registered")
    return 2
  try:
    ix = Index(root)
    ctx = Ctx(prop, tier, ix, only_key=only_key, quiet=quiet)
    ctx.undecided = list(getattr(mod, "UNDECIDED", []))
    ctx.trusted = list(getattr(mod, "TRUSTED", []))
    mod.run(ctx)
    show = os.environ.get("TTVERIF_SHOW")
    if show:
      for o in ctx.obs:
        if show in ("all", o.rule):
          print("  ", "ok " if o.ok else "BAD", o.rule, "|", o.key, "|", o.where, "|", o.detail)
    if not ctx.obs:
      raise AnalysisError("no rule instance was evaluated")
    return finish(ctx, mod.EXPLANATION, mod.RULE_TEXT)
  except AnalysisError as e:
    print(f"ANALYSIS-ERROR property={prop}: {e}")
    return 2
  except Exception:  # any traceback is an analysis failure, never a violation
    traceback.print_exc()
    print(f"ANALYSIS-ERROR property={prop}: internal error in the checker (traceback above)")
    return 2


def main(argv=None) -> int:
  ap = argparse.ArgumentParser(prog="ttverif")
  sub = ap.add_subparsers(dest="cmd", required=True)
  c = sub.add_parser("check")
  c.add_argument("prop")
  c.add_argument("--tier", default=os.environ.get("VERIF_TIER", "quick"), choices=["quick", "thorough"])
  c.add_argument("--root", default=DEFAULT_ROOT)
  r = sub.add_parser("replay")
  r.add_argument("path")
  a = sub.add_parser("all")
  a.add_argument("--tier", default="quick", choices=["quick", "thorough"])
  a.add_argument("--root", default=DEFAULT_ROOT)
  s = sub.add_parser("selftest")
  s.add_argument("props", nargs="*")
  s.add_argument("--jobs", type=int, default=16)
  s.add_argument("--list", action="store_true")
  s.add_argument("--only", default=None)
  args = ap.parse_args(argv)

  if args.cmd == "check":
    rc = run_check(args.prop.upper(), args.tier, args.root)
    if rc == 0 and args.tier == "thorough" and args.root == DEFAULT_ROOT:
      from . import selftest
      selftest.summary_for(args.prop.upper())
    return rc
  if args.cmd == "replay":
    with open(args.path, encoding="utf-8") as f:
      rp = json.load(f)
    return run_check(rp["property"], rp.get("tier", "quick"), rp.get("root", DEFAULT_ROOT), only_key=rp["construct"])
  if args.cmd == "all":
    worst = 0
    for p in PROPS:
      try:
        importlib.import_module(f"ttverif.props.{p.lower()}")
      except ModuleNotFoundError:
        continue
      worst = max(worst, run_check(p, args.tier, args.root))
    return worst
  if args.cmd == "selftest":
    from . import selftest
    return selftest.main(args.props, jobs=args.jobs, list_only=args.list, only=args.only)
  return 2


if __name__ == "__main__":
  sys.exit(main())
