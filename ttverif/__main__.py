"""CLI: python -m ttverif check <Cxx> [--tier quick|thorough] [--root DIR]
         python -m ttverif replay <path>
         python -m ttverif all [--tier ...]
         python -m ttverif selftest [Cxx ...] [--jobs N]
Exit codes: 0 property held on everything analysed; 1 VIOLATION; 2 ANALYSIS-ERROR.
"""
from __future__ import annotations

import argparse
import importlib
import json
import os
import sys
import traceback

from .core import AnalysisError, DEFAULT_ROOT, Index
from .report import Ctx, finish

PROPS = [f"C{i:02d}" for i in range(1, 20)]


_WRAPPED = set()


def _wrap_checks():
  """Every `check_*(ctx, ...)` function of the rule and property modules turns an AnalysisError
  (anchor renamed, idiom not recognised) into an UNDECIDED record of that step instead of aborting
  the property: the other rules still run, and nothing is concluded from the unrecognised shape."""
  import functools
  import types
  for name, m in list(sys.modules.items()):
    if not (name.startswith("ttverif.props.") or name.startswith("ttverif.rules.")) or m is None:
      continue
    for attr, fn in list(vars(m).items()):
      if isinstance(fn, types.FunctionType) and fn.__module__ == name and (attr.startswith("check_") or attr in ("set_iteration", "unsat_ranges", "namedtuple_attrs")) and (name, attr) not in _WRAPPED:
        def make(f):
          @functools.wraps(f)
          def wrapper(*a, **k):
            try:
              return f(*a, **k)
            except AnalysisError as e:
              c = next((x for x in a if hasattr(x, "undecide")), None)
              if c is None:
                raise
              c.undecide(f.__name__, str(e))
              return 0
            except (_NotConst, _Raised) as e:
              # the finite evaluator met an expression outside its subset and the rule did not anticipate it: not decided
              c = next((x for x in a if hasattr(x, "undecide")), None)
              if c is None:
                raise
              c.undecide(f.__name__, f"an expression leaves the evaluable subset ({type(e).__name__}: {e})")
              return 0
            except _SHAPE_ERRORS as e:
              # the checker itself tripped: on the reference tree that is a bug of the checker (traceback, exit 2);
              # on a tree that differs from the reference it is a shape the rule does not know
              c = next((x for x in a if hasattr(x, "undecide")), None)
              if c is None or not getattr(c.ix, "differs_from_reference", False):
                raise
              c.undecide(f.__name__, f"the rule does not recognise the changed code ({type(e).__name__}: {e})")
              return 0
          return wrapper
        setattr(m, attr, make(fn))
        _WRAPPED.add((name, attr))


from .consteval import NotConst as _NotConst, Raised as _Raised

_SHAPE_ERRORS = (KeyError, IndexError, AttributeError, TypeError, ValueError, StopIteration, AssertionError)


def _run_steps(mod, ctx):
  """Run the statements of the property's run(ctx) one by one; a statement that fails with an
  AnalysisError (or that depends on a local an earlier undecided statement could not define)
  becomes an UNDECIDED record and the next statement runs."""
  import ast as _ast
  import inspect
  import textwrap
  src = textwrap.dedent(inspect.getsource(mod.run))
  tree = _ast.parse(src)
  fn = tree.body[0]
  body = []
  for st in fn.body:
    label = _ast.unparse(st).splitlines()[0][:100]
    handler = _ast.ExceptHandler(
      type=_ast.Tuple(elts=[_ast.Name(id="AnalysisError", ctx=_ast.Load()), _ast.Name(id="NameError", ctx=_ast.Load()), _ast.Name(id="_NotConst", ctx=_ast.Load()), _ast.Name(id="_Raised", ctx=_ast.Load())] + [_ast.Name(id=e_.__name__, ctx=_ast.Load()) for e_ in _SHAPE_ERRORS], ctx=_ast.Load()), name="_e",
      body=[_ast.If(test=_ast.parse(f"(isinstance(_e, NameError) and not {fn.args.args[0].arg}.not_analysed) or (not isinstance(_e, (AnalysisError, NameError, _NotConst, _Raised)) and not {fn.args.args[0].arg}.ix.differs_from_reference)", mode="eval").body, body=[_ast.Raise(exc=None, cause=None)], orelse=[]),
            _ast.Expr(_ast.Call(func=_ast.Attribute(value=_ast.Name(id=fn.args.args[0].arg, ctx=_ast.Load()), attr="undecide", ctx=_ast.Load()),
                                args=[_ast.Constant(label), _ast.Call(func=_ast.Name(id="str", ctx=_ast.Load()), args=[_ast.Name(id="_e", ctx=_ast.Load())], keywords=[])], keywords=[]))])
    body.append(_ast.Try(body=[st], handlers=[handler], orelse=[], finalbody=[]))
  fn.body = body
  fn.name = "_run_stepwise"
  _ast.fix_missing_locations(tree)
  ns = dict(vars(mod))
  ns["AnalysisError"] = AnalysisError
  ns["_NotConst"], ns["_Raised"] = _NotConst, _Raised
  exec(compile(tree, f"<stepwise {mod.__name__}.run>", "exec"), ns)
  ns["_run_stepwise"](ctx)


def run_check(prop: str, tier: str, root: str, only_key=None, quiet=False) -> int:
  try:
    mod = importlib.import_module(f"ttverif.props.{prop.lower()}")
  except ModuleNotFoundError:
    print(f"ANALYSIS-ERROR property={prop}: no checker registered")
    return 2
  try:
    ix = Index(root)
    ctx = Ctx(prop, tier, ix, only_key=only_key, quiet=quiet)
    ctx.undecided = list(getattr(mod, "UNDECIDED", []))
    ctx.trusted = list(getattr(mod, "TRUSTED", []))
    _wrap_checks()
    _run_steps(mod, ctx)
    show = os.environ.get("TTVERIF_SHOW")
    if show:
      for o in ctx.obs:
        if show in ("all", o.rule):
          print("  ", "ok " if o.ok else "BAD", o.rule, "|", o.key, "|", o.where, "|", o.detail)
    if not ctx.obs:
      raise AnalysisError("no rule instance was evaluated")
    return finish(ctx, mod.EXPLANATION, mod.RULE_TEXT)
  except AnalysisError as e:
    print(f"ANALYSIS-ERROR property={prop}: {e}")
    return 2
  except Exception:  # any traceback is an analysis failure, never a violation
    traceback.print_exc()
    print(f"ANALYSIS-ERROR property={prop}: internal error in the checker (traceback above)")
    return 2


def main(argv=None) -> int:
  ap = argparse.ArgumentParser(prog="ttverif")
  sub = ap.add_subparsers(dest="cmd", required=True)
  c = sub.add_parser("check")
  c.add_argument("prop")
  c.add_argument("--tier", default=os.environ.get("VERIF_TIER", "quick"), choices=["quick", "thorough"])
  c.add_argument("--root", default=DEFAULT_ROOT)
  r = sub.add_parser("replay")
  r.add_argument("path")
  a = sub.add_parser("all")
  a.add_argument("--tier", default="quick", choices=["quick", "thorough"])
  a.add_argument("--root", default=DEFAULT_ROOT)
  s = sub.add_parser("selftest")
  s.add_argument("props", nargs="*")
  s.add_argument("--jobs", type=int, default=16)
  s.add_argument("--list", action="store_true")
  s.add_argument("--only", default=None)
  args = ap.parse_args(argv)

  if args.cmd == "check":
    rc = run_check(args.prop.upper(), args.tier, args.root)
    if rc == 0 and args.tier == "thorough" and args.root == DEFAULT_ROOT:
      from . import selftest
      selftest.summary_for(args.prop.upper())
    return rc
  if args.cmd == "replay":
    with open(args.path, encoding="utf-8") as f:
      rp = json.load(f)
    return run_check(rp["property"], rp.get("tier", "quick"), rp.get("root", DEFAULT_ROOT), only_key=rp["construct"])
  if args.cmd == "all":
    worst = 0
    for p in PROPS:
      try:
        importlib.import_module(f"ttverif.props.{p.lower()}")
      except ModuleNotFoundError:
        continue
      worst = max(worst, run_check(p, args.tier, args.root))
    return worst
  if args.cmd == "selftest":
    from . import selftest
    return selftest.main(args.props, jobs=args.jobs, list_only=args.list, only=args.only)
  return 2


if __name__ == "__main__":
  sys.exit(main())
