"""E4 statement-level control-flow graph, dominators, and E5 forward dataflow.

Statement kinds handled: simple statements, If, For (+else), While (+else), Try/except/else
(no ``finally`` and no ``match`` in this repository: both raise AnalysisError so that they are
never silently mis-modelled), With, Return, Raise, Break, Continue, Assert, nested def/class
(treated as one defining statement).

Edges carry a label:
  None                      unconditional
  ("cond", expr, bool)      branch on `expr` being truthy / falsy
  ("iter", for_node, bool)  for-loop has / has no further item
  ("exc", handler)          exceptional edge from a statement in a try body to a handler
"""
from __future__ import annotations

import ast
import typing

from .core import AnalysisError

ENTRY, EXIT, RAISE = "entry", "exit", "raise"

_EXIT_CALLS = {"sys.exit", "exit", "quit", "os._exit"}


def is_noreturn_call(stmt) -> bool:
  """`sys.exit(...)` expression statements terminate the path like a raise."""
  if isinstance(stmt, ast.Expr) and isinstance(stmt.value, ast.Call):
    f = stmt.value.func
    name = None
    if isinstance(f, ast.Attribute) and isinstance(f.value, ast.Name):
      name = f"{f.value.id}.{f.attr}"
    elif isinstance(f, ast.Name):
      name = f.id
    return name in _EXIT_CALLS
  return False


class Node:
  __slots__ = ("id", "kind", "ast", "succ", "pred")

  def __init__(self, nid, kind, node):
    self.id = nid
    self.kind = kind      # entry/exit/raise/stmt/test/for/with/handler
    self.ast = node
    self.succ: typing.List[typing.Tuple[int, typing.Any]] = []
    self.pred: typing.List[typing.Tuple[int, typing.Any]] = []

  def __repr__(self):
    return f"<N{self.id} {self.kind} L{getattr(self.ast, 'lineno', '-')}>"


class CFG:
  def __init__(self, fnode):
    self.fnode = fnode
    self.nodes: typing.List[Node] = []
    self.entry = self._new(ENTRY, None)
    self.exit = self._new(EXIT, None)
    self.raise_exit = self._new(RAISE, None)
    self.by_ast: typing.Dict[int, int] = {}
    body = fnode.body if not isinstance(fnode, ast.Lambda) else [ast.Return(value=fnode.body)]
    ends = self._seq(body, [(self.entry, None)], loop=None, handlers=[])
    for (n, lab) in ends:
      self._edge(n, self.exit, lab)

  # -- construction ---------------------------------------------------------------------
  def _new(self, kind, node) -> int:
    n = Node(len(self.nodes), kind, node)
    self.nodes.append(n)
    if node is not None:
      self.by_ast.setdefault(id(node), n.id)
    return n.id

  def _edge(self, a: int, b: int, label=None):
    if (b, label) not in self.nodes[a].succ:
      self.nodes[a].succ.append((b, label))
      self.nodes[b].pred.append((a, label))

  def _connect(self, preds, nid):
    for (p, lab) in preds:
      self._edge(p, nid, lab)

  def _exc_edges(self, nid, handlers):
    """A statement inside try bodies may transfer to any handler of the innermost try
    (and, since handlers may not match, to outer ones / the raise exit)."""
    if not handlers:
      return
    for h in handlers[-1]:
      self._edge(nid, h, ("exc", self.nodes[h].ast))

  def _seq(self, stmts, preds, loop, handlers):
    for st in stmts:
      preds = self._stmt(st, preds, loop, handlers)
    return preds

  def _stmt(self, st, preds, loop, handlers):
    if isinstance(st, ast.If):
      t = self._new("test", st)
      self._connect(preds, t)
      self._exc_edges(t, handlers)
      a = self._seq(st.body, [(t, ("cond", st.test, True))], loop, handlers)
      b = self._seq(st.orelse, [(t, ("cond", st.test, False))], loop, handlers)
      return a + b
    if isinstance(st, ast.While):
      t = self._new("test", st)
      self._connect(preds, t)
      self._exc_edges(t, handlers)
      brk: typing.List = []
      const_true = isinstance(st.test, ast.Constant) and bool(st.test.value)
      body_end = self._seq(st.body, [(t, ("cond", st.test, True))], (t, brk), handlers)
      self._connect(body_end, t)
      out = []
      if not const_true:
        out = self._seq(st.orelse, [(t, ("cond", st.test, False))], loop, handlers)
      return out + brk
    if isinstance(st, (ast.For, ast.AsyncFor)):
      h = self._new("for", st)
      self._connect(preds, h)
      self._exc_edges(h, handlers)
      brk = []
      body_end = self._seq(st.body, [(h, ("iter", st, True))], (h, brk), handlers)
      self._connect(body_end, h)
      out = self._seq(st.orelse, [(h, ("iter", st, False))], loop, handlers)
      return out + brk
    if isinstance(st, ast.Try):
      if st.finalbody:
        raise AnalysisError(f"try/finally at line {st.lineno} is not modelled by the CFG builder")
      hs = []
      for hd in st.handlers:
        hs.append(self._new("handler", hd))
      body_end = self._seq(st.body, preds, loop, handlers + [hs])
      else_end = self._seq(st.orelse, body_end, loop, handlers)
      out = list(else_end)
      for hid, hd in zip(hs, st.handlers):
        self._exc_edges(hid, handlers)
        out += self._seq(hd.body, [(hid, None)], loop, handlers)
      return out
    if isinstance(st, (ast.With, ast.AsyncWith)):
      w = self._new("with", st)
      self._connect(preds, w)
      self._exc_edges(w, handlers)
      return self._seq(st.body, [(w, None)], loop, handlers)
    if hasattr(ast, "Match") and isinstance(st, ast.Match):
      raise AnalysisError(f"match statement at line {st.lineno} is not modelled by the CFG builder")
    # simple statements
    n = self._new("stmt", st)
    self._connect(preds, n)
    self._exc_edges(n, handlers)
    if isinstance(st, ast.Return):
      self._edge(n, self.exit, None)
      return []
    if isinstance(st, ast.Raise) or is_noreturn_call(st):
      if not handlers or is_noreturn_call(st):
        self._edge(n, self.raise_exit, None)
      else:
        # may be caught by an enclosing handler (edges added above) or propagate
        self._edge(n, self.raise_exit, ("exc", None))
      return []
    if isinstance(st, ast.Break):
      if loop is None:
        raise AnalysisError("break outside loop")
      loop[1].append((n, None))
      return []
    if isinstance(st, ast.Continue):
      if loop is None:
        raise AnalysisError("continue outside loop")
      self._edge(n, loop[0], None)
      return []
    return [(n, None)]

  # -- queries --------------------------------------------------------------------------
  def node_of(self, astnode) -> typing.Optional[int]:
    return self.by_ast.get(id(astnode))

  def stmt_node_containing(self, astnode) -> typing.Optional[int]:
    """CFG node of the statement (or header) that evaluates expression `astnode`."""
    from .core import ancestors
    chain = [astnode] + list(ancestors(astnode))
    for i, a in enumerate(chain):
      nid = self.by_ast.get(id(a))
      if nid is not None:
        n = self.nodes[nid]
        # an expression inside the *body* of a compound statement belongs to an inner node,
        # which would have been found first; header expressions belong to the header node.
        return nid
      if a is self.fnode:
        break
    return None

  def reachable(self) -> typing.Set[int]:
    seen, stack = {self.entry}, [self.entry]
    while stack:
      n = stack.pop()
      for (s, _) in self.nodes[n].succ:
        if s not in seen:
          seen.add(s)
          stack.append(s)
    return seen

  def dominators(self) -> typing.Dict[int, typing.Set[int]]:
    reach = self.reachable()
    order = self._rpo(reach)
    dom = {n: set(reach) for n in reach}
    dom[self.entry] = {self.entry}
    changed = True
    while changed:
      changed = False
      for n in order:
        if n == self.entry:
          continue
        ps = [p for (p, _) in self.nodes[n].pred if p in reach]
        new = set.intersection(*(dom[p] for p in ps)) if ps else set()
        new = new | {n}
        if new != dom[n]:
          dom[n] = new
          changed = True
    return dom

  def _rpo(self, reach):
    seen, out = set(), []

    def dfs(n):
      stack = [(n, iter(self.nodes[n].succ))]
      seen.add(n)
      while stack:
        cur, it = stack[-1]
        adv = False
        for (s, _) in it:
          if s in reach and s not in seen:
            seen.add(s)
            stack.append((s, iter(self.nodes[s].succ)))
            adv = True
            break
        if not adv:
          out.append(cur)
          stack.pop()
    dfs(self.entry)
    return list(reversed(out))

  def paths_avoiding(self, src: int, dst: int, avoid: typing.Set[int], skip_exc=False) -> bool:
    """Is there a path src ->* dst that passes through no node of `avoid` (src itself excluded)?"""
    seen, stack = {src}, [src]
    while stack:
      n = stack.pop()
      for (s, lab) in self.nodes[n].succ:
        if skip_exc and isinstance(lab, tuple) and lab[0] == "exc":
          continue
        if s == dst:
          return True
        if s in avoid or s in seen:
          continue
        seen.add(s)
        stack.append(s)
    return False


def forward(cfg: CFG, init, transfer, join, edge_transfer=None, bottom=None):
  """Generic forward worklist dataflow.

  transfer(node, state_in) -> state_out ; edge_transfer(node, label, state_in, state_out) ->
  state for that edge (or None if the edge is infeasible) ; join(a, b) -> state.  States must
  support ==.  Exceptional edges leave a statement *before* it completed, hence state_in.
  Returns dict node_id -> state at node entry.
  """
  inn: typing.Dict[int, typing.Any] = {cfg.entry: init}
  work = [cfg.entry]
  iters = 0
  while work:
    iters += 1
    if iters > 200000:
      raise AnalysisError("dataflow did not converge")
    n = work.pop()
    node = cfg.nodes[n]
    out = transfer(node, inn[n])
    for (s, lab) in node.succ:
      if edge_transfer is None:
        st = inn[n] if (isinstance(lab, tuple) and lab[0] == "exc") else out
      else:
        st = edge_transfer(node, lab, inn[n], out)
      if st is None:
        continue
      if s not in inn:
        inn[s] = st
        work.append(s)
      else:
        j = join(inn[s], st)
        if j != inn[s]:
          inn[s] = j
          work.append(s)
  return inn


def assigned_names(target) -> typing.List[str]:
  out = []
  if isinstance(target, ast.Name):
    out.append(target.id)
  elif isinstance(target, (ast.Tuple, ast.List)):
    for e in target.elts:
      out += assigned_names(e)
  elif isinstance(target, ast.Starred):
    out += assigned_names(target.value)
  return out


def header_exprs(node: Node) -> typing.List[ast.AST]:
  """The expressions evaluated *at* a CFG node (not in nested bodies)."""
  st = node.ast
  if st is None:
    return []
  if node.kind == "test":
    return [st.test]
  if node.kind == "for":
    return [st.iter]
  if node.kind == "with":
    return [i.context_expr for i in st.items]
  if node.kind == "handler":
    return [st.type] if st.type is not None else []
  if isinstance(st, (ast.FunctionDef, ast.AsyncFunctionDef)):
    return list(st.decorator_list) + [d for d in st.args.defaults] + [d for d in st.args.kw_defaults if d is not None]
  if isinstance(st, ast.ClassDef):
    return list(st.decorator_list) + list(st.bases)
  return [st]


def fact_holds_at(cfg: "CFG", target: int, establishes: typing.Callable[[ast.AST, bool], bool]) -> bool:
  """True when every path from the entry to node `target` crosses a condition edge (test, polarity)
  for which establishes(test, polarity) is true - i.e. the fact is known whenever `target` runs."""
  seen, stack = {cfg.entry}, [cfg.entry]
  while stack:
    n = stack.pop()
    if n == target:
      return False
    for (s2, lab) in cfg.nodes[n].succ:
      if isinstance(lab, tuple) and lab[0] == "cond" and establishes(lab[1], lab[2]):
        continue
      if s2 not in seen:
        seen.add(s2)
        stack.append(s2)
  return target not in seen
