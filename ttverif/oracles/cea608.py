"""Oracle for CEA-608 (ANSI/CTA-608-E) code tables, *generated from the bit layout* of the
standard, not copied from ttconv/scc/codes.

Layout (after the odd-parity bit 7 of each byte has been removed):
  byte 1 0x10-0x1F introduces a control pair; bit 3 (0x08) of byte 1 selects the data channel
  (0 = channel 1, 1 = channel 2) except for miscellaneous control codes, where the field-2 forms
  use 0x15/0x1D instead of 0x14/0x1C.
"""
from __future__ import annotations

CH2 = 0x0800          # channel 2 = channel 1 | 0x0800
FIELD2 = 0x0100       # field-2 misc control = field-1 | 0x0100 (0x14 -> 0x15)

# --- miscellaneous control codes: 0x14 0x20-0x2F (field 1, channel 1) -----------------------
_MISC = ["RCL", "BS", "AOF", "AON", "DER", "RU2", "RU3", "RU4", "FON", "RDC", "TR", "RTD", "EDM", "CR", "ENM", "EOC"]
CONTROL_CODES = {name: (0x1420 + i, 0x1420 + i + CH2, 0x1420 + i + FIELD2, 0x1420 + i + FIELD2 + CH2) for i, name in enumerate(_MISC)}
# tab offsets: 0x17 0x21-0x23, identical in both fields
for i, name in enumerate(["TO1", "TO2", "TO3"]):
  CONTROL_CODES[name] = (0x1721 + i, 0x1721 + i + CH2, 0x1721 + i, 0x1721 + i + CH2)

# --- mid-row codes: 0x11 0x20-0x2F ------------------------------------------------------------
_MID = ["WHITE", "GREEN", "BLUE", "CYAN", "RED", "YELLOW", "MAGENTA", "ITALICS"]
MID_ROW_CODES = {}
for i, name in enumerate(_MID):
  MID_ROW_CODES[name] = (0x1120 + 2 * i, 0x1120 + 2 * i + CH2)
  MID_ROW_CODES[name + "_UNDERLINE"] = (0x1121 + 2 * i, 0x1121 + 2 * i + CH2)
MID_ROW_STYLE = {}   # style bits (low nibble) -> (color name or None, italic, underline)
for i, name in enumerate(_MID):
  for u in (0, 1):
    MID_ROW_STYLE[2 * i + u] = (None if name == "ITALICS" else name.lower(), name == "ITALICS", bool(u))

# --- background / foreground attribute codes -------------------------------------------------
_BG = [("BW", "white"), ("BG", "green"), ("BB", "blue"), ("BC", "cyan"), ("BR", "red"), ("BY", "yellow"), ("BM", "magenta"), ("BA", "black")]
ATTRIBUTE_CODES = {}   # name -> (ch1, ch2, color name, alpha class, is_background, underline)
for i, (pfx, color) in enumerate(_BG):
  ATTRIBUTE_CODES[pfx + "O"] = (0x1020 + 2 * i, 0x1020 + 2 * i + CH2, color, "opaque", True, False)
  ATTRIBUTE_CODES[pfx + "S"] = (0x1021 + 2 * i, 0x1021 + 2 * i + CH2, color, "semi", True, False)
ATTRIBUTE_CODES["BT"] = (0x172D, 0x172D + CH2, "black", "transparent", True, False)
ATTRIBUTE_CODES["FA"] = (0x172E, 0x172E + CH2, "black", "opaque", False, False)
ATTRIBUTE_CODES["FAU"] = (0x172F, 0x172F + CH2, "black", "opaque", False, True)

# --- special characters: 0x11 0x30-0x3F -------------------------------------------------------
SPECIAL_CHARS = ["®", "°", "½", "¿", "™", "¢", "£", "♪",
                 "à", " ", "è", "â", "ê", "î", "ô", "û"]
SPECIAL = {0x1130 + i: c for i, c in enumerate(SPECIAL_CHARS)}

# --- extended characters: 0x12 / 0x13 0x20-0x3F ------------------------------------------------
# Positions whose glyph is a line-drawing / dash shape admit the light or the heavy Unicode form.
_EXT_12 = ["Á", "É", "Ó", "Ú", "Ü", "ü", "‘", "¡",
           "*", "'", ("—", "━", "─"), "©", "℠", "•", "“", "”",
           "À", "Â", "Ç", "È", "Ê", "Ë", "ë", "Î",
           "Ï", "ï", "Ô", "Ù", "ù", "Û", "«", "»"]
_EXT_13 = ["Ã", "ã", "Í", "Ì", "ì", "Ò", "ò", "Õ",
           "õ", "{", "}", "\\", "^", "_", ("|", "¦"), "~",
           "Ä", "ä", "Ö", "ö", "ß", "¥", "¤", ("│", "┃", "|"),
           "Å", "å", "Ø", "ø", ("┌", "┏"), ("┐", "┓"), ("└", "┗"), ("┘", "┛")]
EXTENDED = {}
for i, c in enumerate(_EXT_12):
  EXTENDED[0x1220 + i] = c
for i, c in enumerate(_EXT_13):
  EXTENDED[0x1320 + i] = c

# --- standard characters: ASCII with ten substitutions -----------------------------------------
STANDARD_SUBSTITUTIONS = {0x2A: "á", 0x5C: "é", 0x5E: "í", 0x5F: "ó", 0x60: "ú",
                          0x7B: "ç", 0x7C: "÷", 0x7D: "Ñ", 0x7E: "ñ", 0x7F: "█"}


def standard_char(b: int) -> str:
  return STANDARD_SUBSTITUTIONS.get(b, chr(b))


# --- preamble address codes -----------------------------------------------------------------
# (byte1 & 0x07, byte2 & 0x20) -> row ; byte1 & 0x07 == 0 has only the 0x40-0x5F form (row 11)
PAC_ROWS = {(1, 0): 1, (1, 1): 2, (2, 0): 3, (2, 1): 4, (5, 0): 5, (5, 1): 6, (6, 0): 7, (6, 1): 8,
            (7, 0): 9, (7, 1): 10, (0, 0): 11, (3, 0): 12, (3, 1): 13, (4, 0): 14, (4, 1): 15}
PAC_COLORS = ["white", "green", "blue", "cyan", "red", "yellow", "magenta"]


def pac(b1: int, b2: int):
  """None if (b1, b2) is not a PAC, else dict(row, channel, color, italic, underline, indent)."""
  if not (0x10 <= b1 <= 0x1F and 0x40 <= b2 <= 0x7F):
    return None
  row = PAC_ROWS.get((b1 & 0x07, 1 if b2 & 0x20 else 0))
  if row is None:
    return None
  bits = b2 & 0x1F
  underline = bool(bits & 1)
  if bits < 0x10:
    idx = bits >> 1
    color = "white" if idx == 7 else PAC_COLORS[idx]
    return dict(row=row, channel=2 if b1 & 0x08 else 1, color=color, italic=(idx == 7), underline=underline, indent=None)
  return dict(row=row, channel=2 if b1 & 0x08 else 1, color=None, italic=False, underline=underline, indent=((bits - 0x10) >> 1) * 4)


def classify(b1: int, b2: int):
  """(class, channel) of a parity-stripped byte pair.
  class in padding / text / pac / midrow / control / attribute / special / extended / unknown;
  channel in 1 / 2 / None."""
  if b1 == 0 and b2 == 0:
    return ("padding", None)
  if b1 >= 0x20:
    return ("text", None)
  if b1 < 0x10:
    return ("unknown", None)
  ch = 2 if b1 & 0x08 else 1
  base = b1 & 0xF7
  if 0x40 <= b2 <= 0x7F:
    return ("pac", ch) if pac(b1, b2) is not None else ("unknown", None)
  if 0x20 <= b2 <= 0x2F:
    if base == 0x10:
      return ("attribute", ch)
    if base == 0x11:
      return ("midrow", ch)
    if base == 0x14:
      return ("control", ch)
    if base == 0x15:
      return ("control", None)       # field-2 form: belongs to neither field-1 channel
    if base == 0x17 and 0x21 <= b2 <= 0x23:
      return ("control", ch)
    if base == 0x17 and 0x2D <= b2 <= 0x2F:
      return ("attribute", ch)
    if base in (0x12, 0x13):
      return ("extended", ch)
    return ("unknown", None)
  if 0x30 <= b2 <= 0x3F:
    if base == 0x11:
      return ("special", ch)
    if base in (0x12, 0x13):
      return ("extended", ch)
    return ("unknown", None)
  return ("unknown", None)


COLOR_NAMES = {
  "ColorType((255, 255, 255, 255))": "white", "ColorType((0, 128, 0, 255))": "green", "ColorType((0, 255, 0, 255))": "green",
  "ColorType((0, 0, 255, 255))": "blue", "ColorType((0, 255, 255, 255))": "cyan", "ColorType((255, 0, 0, 255))": "red",
  "ColorType((255, 255, 0, 255))": "yellow", "ColorType((255, 0, 255, 255))": "magenta", "ColorType((0, 0, 0, 255))": "black",
}


def color_name_alpha(sym_text: str):
  """'ColorType((r, g, b, a))' -> (name, alpha class)"""
  import re
  m = re.fullmatch(r"ColorType\(\((\d+), (\d+), (\d+), (\d+)\)\)", sym_text)
  if not m:
    return (None, None)
  r, g, b, a = (int(x) for x in m.groups())
  name = COLOR_NAMES.get(f"ColorType(({r}, {g}, {b}, 255))")
  alpha = "opaque" if a == 255 else ("transparent" if a == 0 else "semi")
  return (name, alpha)
