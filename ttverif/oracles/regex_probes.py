"""Probe tables for the regular expressions of the readers, written from the format specifications
(TTML2 section 12.3 <time-expression>, section 10.3.x <length> / <color>; WebVTT section 4 and 6; SubRip's
de-facto syntax), not from ttconv's patterns.  Each entry names a pattern by where it is bound, lists whole values
that the specification makes well-formed (with the captured fields, where the reader uses them) and near misses
that it makes ill-formed."""

# key: (module, binding) where binding is `NAME`, `Class.NAME`, or `<function qualname>::<local>` / `<function qualname>::re.sub`
PROBES = {
  ("ttconv.imsc.utils", "_CLOCK_TIME_FRAMES_RE"): dict(
    spec="TTML2 clock-time with frames: hours 2+ digits, minutes 2, seconds 2, frames 2+ digits",
    accept=[("00:00:01:05", ("00", "00", "01", "05")), ("100:59:59:00", ("100", "59", "59", "00")), ("00:00:01:100", ("00", "00", "01", "100"))],
    reject=["0:00:01:05", "00:00:01:5", "00:0:01:05", "00:00:01", "00:00:01:05:00", "00:00:01:0a", " 00:00:01:05"]),
  ("ttconv.imsc.utils", "_CLOCK_TIME_FRACTION_RE"): dict(
    spec="TTML2 clock-time with optional fraction",
    accept=[("00:00:01", ("00", "00", "01")), ("00:00:01.5", ("00", "00", "01.5")), ("123:59:59.999", ("123", "59", "59.999"))],
    reject=["00:00:1", "00:00:01.", "0:00:01", "00:00:01,5", "00:00:01.5s", "00:00"]),
  ("ttconv.imsc.utils", "_OFFSET_FRAME_RE"): dict(spec="TTML2 offset-time, metric f", accept=[("10f", ("10",)), ("10.5f", ("10.5",))], reject=["f", "10", "10.f", "10 f", "10fps", "-10f"]),
  ("ttconv.imsc.utils", "_OFFSET_TICK_RE"): dict(spec="TTML2 offset-time, metric t", accept=[("10t", ("10",)), ("0.5t", ("0.5",))], reject=["t", "10", "10.t", "10 t", "10ts"]),
  ("ttconv.imsc.utils", "_OFFSET_MS_RE"): dict(spec="TTML2 offset-time, metric ms", accept=[("10ms", ("10",)), ("1.5ms", ("1.5",))], reject=["ms", "10", "10 ms", "10msec", "10m"]),
  ("ttconv.imsc.utils", "_OFFSET_S_RE"): dict(spec="TTML2 offset-time, metric s", accept=[("10s", ("10",)), ("1.25s", ("1.25",))], reject=["s", "10", "10 s", "10sec", "10ms"]),
  ("ttconv.imsc.utils", "_OFFSET_M_RE"): dict(spec="TTML2 offset-time, metric m", accept=[("10m", ("10",)), ("1.5m", ("1.5",))], reject=["m", "10", "10 m", "10min", "10ms"]),
  ("ttconv.imsc.utils", "_OFFSET_H_RE"): dict(spec="TTML2 offset-time, metric h", accept=[("10h", ("10",)), ("1.5h", ("1.5",))], reject=["h", "10", "10 h", "10hr"]),
  ("ttconv.imsc.utils", "_LENGTH_RE"): dict(
    spec="TTML2 <length>: optional sign, digits with optional fraction, unit px | em | c | % | rh | rw",
    accept=[("10px", ("10", "px")), ("1.5em", ("1.5", "em")), ("-2c", ("-2", "c")), ("+3%", ("+3", "%")), ("10rh", ("10", "rh")), ("0.25rw", ("0.25", "rw"))],
    reject=["10", "10 px", "10pt", "1.px", "10px ", "px10", "1e3px"]),
  ("ttconv.utils", "_HEX_COLOR_RE"): dict(
    spec="TTML2 <color>: #rrggbb or #rrggbbaa",
    accept=[("#ff0000", ("ff", "00", "00", None)), ("#FF0000aa", ("FF", "00", "00", "aa"))],
    reject=["#ff00", "#ff00000", "ff0000", "#ff0000 ", "#gg0000", "#ff0000aaa"]),
  ("ttconv.utils", "_DEC_COLOR_RE"): dict(spec="TTML2 <color>: rgb(r,g,b)", accept=[("rgb(1,2,3)", ("1", "2", "3")), ("rgb( 1 , 2 , 3 )", ("1", "2", "3"))], reject=["rgb(1,2)", "rgb(1,2,3,4)", "rgb(1,2,3) x", "rgb 1,2,3", "rgba(1,2,3)"]),
  ("ttconv.utils", "_DEC_COLORA_RE"): dict(spec="TTML2 <color>: rgba(r,g,b,a)", accept=[("rgba(1,2,3,4)", ("1", "2", "3", "4"))], reject=["rgba(1,2,3)", "rgba(1,2,3,4,5)", "rgba(1,2,3,4) x", "rgb(1,2,3,4)"]),
  ("ttconv.imsc.attributes", "CellResolutionAttribute._CELL_RESOLUTION_RE"): dict(spec="ttp:cellResolution: two integers separated by one space", accept=[("32 15", ("32", "15"))], reject=["32", "32x15", "32 15 1", "32  15", "a b", "32 15px"]),
  ("ttconv.imsc.attributes", "FrameRateAttribute._FRAME_RATE_RE"): dict(spec="ttp:frameRate: digits", accept=[("30", ("30",))], reject=["30fps", "30.0", "", "-30", "30 1"]),
  ("ttconv.imsc.attributes", "FrameRateAttribute._FRAME_RATE_MULT_RE"): dict(spec="ttp:frameRateMultiplier: two integers", accept=[("1000 1001", ("1000", "1001"))], reject=["1000", "1000/1001", "1000 1001 1", "1000 1001x"]),
  ("ttconv.imsc.attributes", "TickRateAttribute._TICK_RATE_RE"): dict(spec="ttp:tickRate: digits", accept=[("10000000", ("10000000",))], reject=["10e6", "1000 ", "", "-1", "10 ticks"]),
  ("ttconv.vtt.reader", "_VTT_INT_RE"): dict(spec="WebVTT line number: optional '-', one or more digits", accept=[("0", ("0",)), ("-1", ("-1",)), ("10", ("10",)), ("007", ("007",))], reject=["", "+1", "1.5", "1%", "- 1", "a"]),
  ("ttconv.vtt.reader", "_VTT_PCT_RE"): dict(spec="WebVTT percentage: digits, optional fraction, '%'", accept=[("50%", ("50",)), ("50.5%", ("50.5",)), ("0%", ("0",)), ("100%", ("100",))], reject=["50", "%", "-5%", ".5%", "50 %", "50%%"]),
  ("ttconv.vtt.reader", "_VTT_TS_RE"): dict(
    spec="WebVTT timestamp: optional hours (2+ digits), mm:ss.ttt",
    accept=[("00:01.000", (None, "00", "01", "000")), ("00:00:01.000", ("00", "00", "01", "000")), ("100:00:00.000", ("100", "00", "00", "000"))],
    reject=["0:01.000", "00:01.00", "00:01,000", "00:01.0000", "1:00:01.000", "00:01"]),
  ("ttconv.srt.reader", "_TIMECODE_RE"): dict(
    spec="SubRip timing line: hh:mm:ss,mmm --> hh:mm:ss,mmm",
    accept=[("00:00:01,000 --> 00:00:02,500", ("00", "00", "01", "000", "00", "00", "02", "500")), ("100:00:01,000 --> 100:00:02,500", ("100", "00", "01", "000", "100", "00", "02", "500"))],
    reject=["00:00:01.000 --> 00:00:02.500", "00:00:01,000 -> 00:00:02,500", "00:00:01,000", "0:00:01,000 --> 0:00:02,500", "00:00:01,00 --> 00:00:02,50"]),
  ("ttconv.isd", "ttconv.isd:_process_lwsp::re.sub"): dict(
    spec="TTML2 xml:space=default: linear white space is SPACE, TAB, CR, LF only (XML S production); other Unicode spaces are characters",
    sub=[("a \t\r\n b", "a b"), ("a\u00a0\u00a0b", "a\u00a0\u00a0b"), ("a\u3000 b", "a\u3000 b"), ("a\u2003b", "a\u2003b"), ("  a  ", " a "), ("a\x0bb\x0cc", "a\x0bb\x0cc")]),
}
