"""Oracle: TTML2 (2nd ed.) / IMSC 1.1 style properties supported by the canonical model -
inheritance, initial value and applicability - written from the specifications
(TTML2 section 10.2.x 'Inherited' / 'Initial' / 'Applies to' rows; IMSC 1.1 section 8.4/8.5 for
the itts:/ebutts: properties).  Entries I could not establish with certainty are None
(= not checked) rather than guessed.

applies_to uses model element kinds; the ruby kinds are spans with a tts:ruby role in TTML, so
span-applicable properties apply to rb/rt/rp (text-carrying) and the container roles take the
inline-container subset.
"""

SPAN_TEXT = {"Span", "Rb", "Rt", "Rp"}
BLOCKS = {"Body", "Div", "P"}
ALL_CONTENT = {"Body", "Div", "P", "Span", "Ruby", "Rb", "Rt", "Rp", "Rbc", "Rtc"}

#       name              inherited  initial (normalised)                       applies to
STYLES = {
  "BackgroundColor": (False, "color:transparent",                 ALL_CONTENT | {"Region"}),
  "Color":           (True,  "color:white",                       SPAN_TEXT),
  "Direction":       (True,  "enum:ltr",                          {"P"} | SPAN_TEXT | {"Ruby", "Rbc", "Rtc"}),
  "Disparity":       (False, "length:0",                          None),
  "Display":         (False, "enum:auto",                         ALL_CONTENT | {"Region"}),
  "DisplayAlign":    (False, "enum:before",                       {"Region"}),
  "Extent":          (False, "extent:100% 100%",                  {"Region"}),
  "FillLineGap":     (True,  "bool:False",                        {"P"}),
  "FontFamily":      (True,  "font:default",                      {"P"} | SPAN_TEXT),
  "FontSize":        (True,  "length:1c",                         {"P"} | SPAN_TEXT),
  "FontStyle":       (True,  "enum:normal",                       {"P"} | SPAN_TEXT),
  "FontWeight":      (True,  "enum:normal",                       {"P"} | SPAN_TEXT),
  "LineHeight":      (True,  "special:normal",                    {"P"}),
  "LinePadding":     (True,  "length:0c",                         {"P"}),
  "LuminanceGain":   (False, "number:1.0",                        {"Region"}),
  "MultiRowAlign":   (True,  "enum:auto",                         {"P"}),
  "Opacity":         (False, "number:1.0",                        ALL_CONTENT | {"Region"}),
  "Origin":          (False, "coord:0% 0%",                       {"Region"}),
  "Overflow":        (False, "enum:hidden",                       {"Region"}),
  "Padding":         (False, "padding:0",                         {"Region"}),
  "Position":        (False, "position:left 0% top 0%",           {"Region"}),
  "RubyAlign":       (True,  "enum:center",                       {"Ruby"}),
  "RubyPosition":    (True,  "enum:outside",                      {"Rt", "Rtc"}),
  "RubyReserve":     (True,  "special:none",                      {"P"}),
  "Shear":           (True,  "number:0",                          {"P"}),
  "ShowBackground":  (False, "enum:always",                       {"Region"}),
  "TextAlign":       (True,  "enum:start",                        {"P"}),
  "TextCombine":     (True,  "enum:none",                         SPAN_TEXT),
  "TextDecoration":  (True,  "decoration:none",                   SPAN_TEXT),
  "TextEmphasis":    (True,  "special:none",                      SPAN_TEXT),
  "TextOutline":     (True,  "special:none",                      SPAN_TEXT),
  "TextShadow":      (True,  "special:none",                      SPAN_TEXT),
  "UnicodeBidi":     (False, "enum:normal",                       {"P"} | SPAN_TEXT),
  "Visibility":      (True,  "enum:visible",                      ALL_CONTENT | {"Region"}),
  "WrapOption":      (True,  "enum:wrap",                         SPAN_TEXT),
  "WritingMode":     (False, "enum:lrtb",                         {"Region"}),
}

# kinds that carry no style of their own
NO_STYLES = {"Br", "Text"}
