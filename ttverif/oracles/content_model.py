"""Oracle: the content model of the canonical model, written from doc/data_model.md (which
follows TTML2 / IMSC 1.1) - not copied from model.py."""

ALLOWED_CHILDREN = {
  "Body": {"Div"},
  "Div": {"P", "Div"},
  "P": {"Span", "Ruby", "Br"},
  "Span": {"Span", "Br", "Text"},
  "Br": set(),
  "Text": set(),
  "Region": set(),          # document regions hold no children (ISD regions: exactly one Body)
  "Ruby": {"Rb", "Rt", "Rp", "Rbc", "Rtc"},
  "Rbc": {"Rb"},
  "Rtc": {"Rt", "Rp"},
  "Rb": {"Span"},
  "Rt": {"Span"},
  "Rp": {"Span"},
}

# Ruby : Rb? Rt? | Rb? Rp Rt? Rp | Rbc Rtc Rtc?   (doc/data_model.md).  The sequences the grammar generates:
RUBY_GRAMMAR = {
  (), ("Rb",), ("Rt",), ("Rb", "Rt"),
  ("Rp", "Rp"), ("Rb", "Rp", "Rp"), ("Rp", "Rt", "Rp"), ("Rb", "Rp", "Rt", "Rp"),
  ("Rbc", "Rtc"), ("Rbc", "Rtc", "Rtc"),
}
# the full forms every implementation must accept
RUBY_REQUIRED = {("Rb", "Rt"), ("Rb", "Rp", "Rt", "Rp"), ("Rbc", "Rtc"), ("Rbc", "Rtc", "Rtc")}

ISD_REGION_CHILDREN = {"Body"}
