"""E1 loader, E2 symbol index, E3 name / call resolution.

Nothing here imports the code under analysis.  All facts come from ``ast`` trees of the
files under ``<root>/ttconv``.
"""
from __future__ import annotations

import ast
import hashlib
import os
import typing

DEFAULT_ROOT = "/repo/src/main/python"
PKG = "ttconv"


class AnalysisError(Exception):
  """The analysis cannot give a verdict (vanished anchor, floor, unknown idiom)."""


# ---------------------------------------------------------------------------------------
# modules
# ---------------------------------------------------------------------------------------

class Module:
  def __init__(self, name: str, path: str, rel: str, src: str):
    self.name = name
    self.path = path
    self.rel = rel
    self.src = src
    self.digest = hashlib.sha256(src.encode("utf-8")).hexdigest()[:16]
    try:
      self.tree = ast.parse(src, filename=path)
    except SyntaxError as e:
      raise AnalysisError(f"cannot parse {path}: {e}") from e
    self.imports: typing.Dict[str, str] = {}
    for node in ast.walk(self.tree):
      for child in ast.iter_child_nodes(node):
        child._parent = node  # type: ignore[attr-defined]
    self.tree._parent = None  # type: ignore[attr-defined]
    self.tree._module = self  # type: ignore[attr-defined]

  def __repr__(self):
    return f"<Module {self.name}>"


def parent(node):
  return getattr(node, "_parent", None)


def clone(node):
  """Deep copy of a syntax (sub)tree that does not follow the `_parent` / `_info` back links
  (copy.deepcopy would copy the whole module through them)."""
  if isinstance(node, list):
    return [clone(x) for x in node]
  if not isinstance(node, ast.AST):
    return node
  new = type(node)()
  for fld, val in ast.iter_fields(node):
    setattr(new, fld, clone(val))
  for a in ("lineno", "col_offset", "end_lineno", "end_col_offset"):
    if hasattr(node, a):
      setattr(new, a, getattr(node, a))
  return new


def ancestors(node):
  n = parent(node)
  while n is not None:
    yield n
    n = parent(n)


def enclosing(node, kinds):
  for a in ancestors(node):
    if isinstance(a, kinds):
      return a
  return None


def unparse(node) -> str:
  try:
    return ast.unparse(node)
  except Exception:  # pragma: no cover
    return "<?>"


def short(node, n=110) -> str:
  s = " ".join(unparse(node).split())
  return s if len(s) <= n else s[: n - 3] + "..."


def dotted(expr) -> typing.Optional[str]:
  """a.b.c -> 'a.b.c' for pure Name/Attribute chains."""
  parts = []
  while isinstance(expr, ast.Attribute):
    parts.append(expr.attr)
    expr = expr.value
  if isinstance(expr, ast.Name):
    parts.append(expr.id)
    return ".".join(reversed(parts))
  return None


# ---------------------------------------------------------------------------------------
# symbols
# ---------------------------------------------------------------------------------------

class FuncInfo:
  def __init__(self, name, qualname, module, node, cls, outer_func):
    self.name = name
    self.qualname = qualname
    self.module: Module = module
    self.node: ast.FunctionDef = node
    self.cls: typing.Optional[ClassInfo] = cls
    self.outer_func: typing.Optional[FuncInfo] = outer_func
    self.decorators = [dotted(d) or dotted(getattr(d, "func", None)) or "?" for d in node.decorator_list]
    self.nested: typing.Dict[str, FuncInfo] = {}

  @property
  def is_static(self):
    return "staticmethod" in self.decorators

  @property
  def is_classmethod(self):
    return "classmethod" in self.decorators

  @property
  def is_property(self):
    return "property" in self.decorators

  @property
  def params(self) -> typing.List[str]:
    a = self.node.args
    return [x.arg for x in a.posonlyargs + a.args] + ([a.vararg.arg] if a.vararg else []) + \
      [x.arg for x in a.kwonlyargs] + ([a.kwarg.arg] if a.kwarg else [])

  @property
  def short(self):
    return self.qualname.split(":", 1)[1]

  def __repr__(self):
    return f"<Func {self.qualname}>"


class ClassInfo:
  def __init__(self, name, qualname, module, node, outer):
    self.name = name
    self.qualname = qualname
    self.module: Module = module
    self.node: ast.ClassDef = node
    self.outer: typing.Optional[ClassInfo] = outer
    self.base_exprs = list(node.bases)
    self.bases: typing.List[ClassInfo] = []
    self.ext_bases: typing.List[str] = []
    self.methods: typing.Dict[str, FuncInfo] = {}
    self.assigns: typing.Dict[str, ast.expr] = {}
    self.assign_nodes: typing.Dict[str, ast.stmt] = {}
    self.ann: typing.Dict[str, ast.expr] = {}
    self.field_order: typing.List[str] = []
    self.nested: typing.Dict[str, ClassInfo] = {}
    self.decorators = [dotted(d) or dotted(getattr(d, "func", None)) or "?" for d in node.decorator_list]
    self.subclasses: typing.List[ClassInfo] = []

  @property
  def short(self):
    return self.qualname.split(":", 1)[1]

  @property
  def is_dataclass(self):
    return any(d and d.split(".")[-1] == "dataclass" for d in self.decorators)

  def __repr__(self):
    return f"<Class {self.qualname}>"


class Index:
  """Whole-package symbol table."""

  def __init__(self, root: str = DEFAULT_ROOT):
    self.root = root
    self.modules: typing.Dict[str, Module] = {}
    self.classes: typing.Dict[str, ClassInfo] = {}
    self.funcs: typing.Dict[str, FuncInfo] = {}
    self.toplevel: typing.Dict[str, typing.Dict[str, typing.Any]] = {}
    self._load()
    self._index()
    self._link()

  # -- loading --------------------------------------------------------------------------
  def _load(self):
    pkgdir = os.path.join(self.root, PKG)
    if not os.path.isdir(pkgdir):
      raise AnalysisError(f"package directory not found: {pkgdir}")
    for dirpath, dirnames, filenames in os.walk(pkgdir):
      dirnames[:] = sorted(d for d in dirnames if d != "__pycache__")
      for fn in sorted(filenames):
        if not fn.endswith(".py"):
          continue
        path = os.path.join(dirpath, fn)
        relmod = os.path.relpath(path, self.root)[:-3].replace(os.sep, ".")
        if relmod.endswith(".__init__"):
          relmod = relmod[: -len(".__init__")]
        with open(path, encoding="utf-8") as f:
          src = f.read()
        rel = os.path.join("src/main/python", os.path.relpath(path, self.root))
        self.modules[relmod] = Module(relmod, path, rel, src)
    if len(self.modules) < 40:
      raise AnalysisError(f"only {len(self.modules)} modules found under {pkgdir}; expected >= 40")
    self.canon_log: typing.List[str] = []
    self.differs_from_reference = False
    if not os.environ.get("TTVERIF_NO_CANON"):
      from . import canon
      self.canon_log = canon.canonicalise(self.modules)
      self.differs_from_reference = bool(canon.DIFFERS[0] or self.canon_log)

  def mod(self, name: str) -> Module:
    m = self.modules.get(name)
    if m is None:
      raise AnalysisError(f"anchor module vanished: {name}")
    return m

  # -- indexing -------------------------------------------------------------------------
  def _index(self):
    for m in self.modules.values():
      top = self.toplevel.setdefault(m.name, {})
      self._index_body(m, m.tree.body, None, None, m.name + ":", top)
      for node in ast.walk(m.tree):
        if isinstance(node, ast.Import):
          for a in node.names:
            if a.asname:
              m.imports[a.asname] = a.name
            else:
              m.imports[a.name.split(".")[0]] = a.name.split(".")[0]
        elif isinstance(node, ast.ImportFrom):
          base = node.module or ""
          if node.level:
            pkg_parts = m.name.split(".")
            is_pkg = m.path.endswith("__init__.py")
            up = node.level - (1 if is_pkg else 0)
            base_parts = pkg_parts[: len(pkg_parts) - up] if up else pkg_parts
            if not is_pkg and node.level >= 1:
              base_parts = pkg_parts[: len(pkg_parts) - node.level]
            base = ".".join(base_parts + ([node.module] if node.module else []))
          for a in node.names:
            m.imports[a.asname or a.name] = base + "." + a.name

  def _index_body(self, m, body, cls, func, prefix, scope):
    for st in body:
      if isinstance(st, ast.ClassDef):
        ci = ClassInfo(st.name, prefix + st.name, m, st, cls)
        self.classes[ci.qualname] = ci
        st._info = ci
        if cls is not None and func is None:
          cls.nested[st.name] = ci
        if scope is not None:
          scope[st.name] = ci
        self._index_body(m, st.body, ci, None, prefix + st.name + ".", None)
      elif isinstance(st, (ast.FunctionDef, ast.AsyncFunctionDef)):
        fi = FuncInfo(st.name, prefix + st.name, m, st, cls if func is None else None, func)
        self.funcs[fi.qualname] = fi
        st._info = fi
        if cls is not None and func is None:
          cls.methods[st.name] = fi
        if func is not None:
          func.nested[st.name] = fi
        if scope is not None:
          scope[st.name] = fi
        self._index_nested_funcs(m, st, fi, cls)
      elif isinstance(st, ast.Assign):
        for t in st.targets:
          if isinstance(t, ast.Name):
            if cls is not None and func is None:
              cls.assigns[t.id] = st.value
              cls.assign_nodes[t.id] = st
              if t.id not in cls.field_order:
                cls.field_order.append(t.id)
            elif scope is not None:
              scope[t.id] = ("assign", m, st.value)
      elif isinstance(st, ast.AnnAssign) and isinstance(st.target, ast.Name):
        if cls is not None and func is None:
          cls.ann[st.target.id] = st.annotation
          if st.target.id not in cls.field_order:
            cls.field_order.append(st.target.id)
          if st.value is not None:
            cls.assigns[st.target.id] = st.value
            cls.assign_nodes[st.target.id] = st
        elif scope is not None and st.value is not None:
          scope[st.target.id] = ("assign", m, st.value)
      elif isinstance(st, (ast.If, ast.Try, ast.With)) and scope is not None:
        # conditional top-level definitions (rare): index bodies too
        for sub in ("body", "orelse", "finalbody"):
          self._index_body(m, getattr(st, sub, []) or [], cls, func, prefix, scope)

  def _index_nested_funcs(self, m, fnode, fi, cls):
    prefix = fi.qualname + ".<locals>."
    stack = list(fnode.body)
    while stack:
      st = stack.pop()
      if isinstance(st, (ast.FunctionDef, ast.AsyncFunctionDef)):
        sub = FuncInfo(st.name, prefix + st.name, m, st, None, fi)
        self.funcs[sub.qualname] = sub
        st._info = sub
        fi.nested[st.name] = sub
        self._index_nested_funcs(m, st, sub, None)
      elif isinstance(st, ast.ClassDef):
        ci = ClassInfo(st.name, prefix + st.name, m, st, None)
        self.classes[ci.qualname] = ci
        st._info = ci
        self._index_body(m, st.body, ci, None, prefix + st.name + ".", None)
      else:
        for ch in ast.iter_child_nodes(st):
          if isinstance(ch, ast.stmt):
            stack.append(ch)
          elif isinstance(ch, ast.ExceptHandler):
            stack.extend(ch.body)
          elif isinstance(ch, ast.match_case):
            stack.extend(ch.body)

  def _link(self):
    for ci in self.classes.values():
      for b in ci.base_exprs:
        r = self.resolve(ci.module, b, cls=ci.outer)
        if isinstance(r, ClassInfo):
          ci.bases.append(r)
          r.subclasses.append(ci)
        else:
          ci.ext_bases.append(dotted(b) or unparse(b))

  # -- resolution -----------------------------------------------------------------------
  def resolve_dotted(self, path: str):
    """'ttconv.model.Body' -> ClassInfo ; 'ttconv.model' -> Module."""
    parts = path.split(".")
    for i in range(len(parts), 0, -1):
      modname = ".".join(parts[:i])
      if modname in self.modules:
        obj: typing.Any = self.modules[modname]
        for p in parts[i:]:
          obj = self.member(obj, p)
          if obj is None:
            return None
        return obj
    return None

  def member(self, obj, name):
    if isinstance(obj, Module):
      top = self.toplevel.get(obj.name, {})
      if name in top:
        v = top[name]
        if isinstance(v, tuple) and v[0] == "assign":
          # alias such as X = Y ?
          return v
        return v
      if name in obj.imports:
        return self.resolve_dotted(obj.imports[name])
      sub = obj.name + "." + name
      if sub in self.modules:
        return self.modules[sub]
      return None
    if isinstance(obj, ClassInfo):
      for c in self.mro(obj):
        if name in c.nested:
          return c.nested[name]
        if name in c.methods:
          return c.methods[name]
        if name in c.assigns:
          return ("assign", c.module, c.assigns[name], c)
      return None
    return None

  def resolve(self, module: Module, expr, cls: typing.Optional[ClassInfo] = None, func: typing.Optional[FuncInfo] = None):
    """Resolve a Name/Attribute chain appearing in `module` (optionally inside cls/func)."""
    d = dotted(expr) if not isinstance(expr, str) else expr
    if d is None:
      return None
    parts = d.split(".")
    head = parts[0]
    obj = None
    # local nested function / enclosing function scope
    f = func
    while f is not None and obj is None:
      if head in f.nested:
        obj = f.nested[head]
      f = f.outer_func
    c = cls
    while c is not None and obj is None:
      if head == c.name:
        obj = c
      elif head in c.nested:
        obj = c.nested[head]
      c = c.outer
    if obj is None:
      obj = self.member(module, head)
    if obj is None:
      return None
    for p in parts[1:]:
      if isinstance(obj, tuple) and obj[0] == "assign":
        # follow simple alias assignment: X = some.dotted.name
        tgt = self.resolve(obj[1], obj[2])
        if tgt is None:
          return None
        obj = tgt
      obj = self.member(obj, p)
      if obj is None:
        return None
    return obj

  def deref(self, module: Module, expr, cls: typing.Optional[ClassInfo] = None, func: typing.Optional[FuncInfo] = None, depth: int = 3):
    """The expression a Name / dotted constant stands for: a module- or class-level name that is
    assigned once resolves to the assigned expression (followed `depth` times); anything else is
    returned unchanged.  `self.X` / `cls.X` are read as `<enclosing class>.X`."""
    for _ in range(depth):
      if not isinstance(expr, (ast.Name, ast.Attribute)):
        break
      e = expr
      if isinstance(e, ast.Attribute) and isinstance(e.value, ast.Name) and e.value.id in ("self", "cls") and cls is not None:
        r = self.member(cls, e.attr)
      else:
        r = self.resolve(module, e, cls=cls, func=func)
      if isinstance(r, tuple) and r and r[0] == "assign":
        module, expr = r[1], r[2]
        cls = r[3] if len(r) > 3 else None
        func = None
      else:
        break
    return expr

  def mro(self, ci: ClassInfo) -> typing.List[ClassInfo]:
    out, seen = [], set()

    def rec(c):
      if c.qualname in seen:
        return
      seen.add(c.qualname)
      out.append(c)
      for b in c.bases:
        rec(b)
    rec(ci)
    return out

  def all_subclasses(self, ci: ClassInfo, include_self=False) -> typing.List[ClassInfo]:
    out, seen = [], set()

    def rec(c):
      for s in c.subclasses:
        if s.qualname not in seen:
          seen.add(s.qualname)
          out.append(s)
          rec(s)
    rec(ci)
    return ([ci] if include_self else []) + out

  def is_subclass(self, ci: ClassInfo, base: ClassInfo) -> bool:
    return any(c is base for c in self.mro(ci))

  def lookup_method(self, ci: ClassInfo, name: str) -> typing.Optional[FuncInfo]:
    for c in self.mro(ci):
      if name in c.methods:
        return c.methods[name]
    return None

  def is_enum(self, ci: ClassInfo) -> bool:
    for c in self.mro(ci):
      for e in c.ext_bases:
        if e.split(".")[-1] in ("Enum", "IntEnum", "Flag", "IntFlag"):
          return True
    return False

  def enum_members(self, ci: ClassInfo) -> typing.List[typing.Tuple[str, ast.expr]]:
    out = []
    for name in ci.field_order:
      if name.startswith("_") or name not in ci.assigns:
        continue
      out.append((name, ci.assigns[name]))
    return out

  # -- anchors --------------------------------------------------------------------------
  def cls(self, qualname: str) -> ClassInfo:
    c = self.classes.get(qualname)
    if c is None:
      raise AnalysisError(f"anchor class vanished: {qualname}")
    return c

  def func(self, qualname: str) -> FuncInfo:
    f = self.funcs.get(qualname)
    if f is None:
      raise AnalysisError(f"anchor function vanished: {qualname}")
    return f

  def func_opt(self, qualname: str) -> typing.Optional[FuncInfo]:
    return self.funcs.get(qualname)

  def funcs_in(self, modname: str) -> typing.List[FuncInfo]:
    self.mod(modname)
    return [f for f in self.funcs.values() if f.module.name == modname]

  def where(self, module: Module, node) -> str:
    return f"{module.rel}:{getattr(node, 'lineno', 0)}"

  def enclosing_func(self, node) -> typing.Optional[FuncInfo]:
    fn = enclosing(node, (ast.FunctionDef, ast.AsyncFunctionDef))
    return getattr(fn, "_info", None) if fn is not None else None

  def enclosing_class(self, node) -> typing.Optional[ClassInfo]:
    for a in ancestors(node):
      if isinstance(a, (ast.FunctionDef, ast.AsyncFunctionDef)):
        info = getattr(a, "_info", None)
        if info is not None and info.cls is not None:
          return info.cls
      if isinstance(a, ast.ClassDef):
        return getattr(a, "_info", None)
    return None

  def scope_name(self, module: Module, node) -> str:
    """Qualified name of the innermost function/class containing node (for construct keys)."""
    for a in [node] + list(ancestors(node)):
      info = getattr(a, "_info", None)
      if info is not None:
        return info.qualname
    return module.name + ":<module>"


def own_nodes(fnode):
  """Walk the nodes of a function body without descending into nested defs/classes/lambdas'
  bodies (lambdas are included as nodes, comprehension bodies are included)."""
  stack = list(reversed(fnode.body)) if hasattr(fnode, "body") and isinstance(fnode.body, list) else [fnode]
  while stack:
    n = stack.pop()
    yield n
    if isinstance(n, (ast.FunctionDef, ast.AsyncFunctionDef, ast.ClassDef)):
      continue
    stack.extend(reversed(list(ast.iter_child_nodes(n))))


def calls_in(fnode):
  for n in own_nodes(fnode):
    if isinstance(n, ast.Call):
      yield n


def call_name(call: ast.Call) -> typing.Optional[str]:
  """Last component of the callee (method or function name)."""
  f = call.func
  if isinstance(f, ast.Attribute):
    return f.attr
  if isinstance(f, ast.Name):
    return f.id
  return None
