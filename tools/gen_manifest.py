#!/venv/bin/python
"""Regenerate /verif/MANIFEST.json from the property checker modules (EXPLANATION / UNDECIDED /
TRUSTED / TECHNIQUE constants) so that the manifest never drifts from the code."""
import importlib
import json
import os
import subprocess
import sys

sys.path.insert(0, "/verif")
props = [json.loads(l) for l in open("/verif/properties.jsonl")]

NOT_APPLICABLE_REASONS = {}
PENDING = "checker under construction in this round (see DESIGN.md section 5); not yet claimed"

fix_commits = subprocess.run(["git", "-C", "/repo", "log", "--format=%h %s", "705161a..HEAD"], capture_output=True, text=True).stdout.strip().splitlines()

checks = []
na = []
served = []
for p in props:
  pid = p["id"]
  try:
    mod = importlib.import_module(f"ttverif.props.{pid.lower()}")
  except ModuleNotFoundError:
    na.append({"property_id": pid, "reason": NOT_APPLICABLE_REASONS.get(pid, PENDING)})
    continue
  if getattr(mod, "NOT_APPLICABLE", None):
    na.append({"property_id": pid, "reason": mod.NOT_APPLICABLE})
    continue
  served.append(pid)
  checks.append({
    "property_id": pid,
    "quick_cmd": f"/venv/bin/python -m ttverif check {pid} --tier quick",
    "thorough_cmd": f"/venv/bin/python -m ttverif check {pid} --tier thorough",
    "evidence_file": f"/verif/evidence/{pid}.json",
    "replay_cmd_template": "/venv/bin/python -m ttverif replay {path}",
    "engine": "ttverif",
    "level_claimed": {
      "category": "other",
      "text": "Static analysis of /repo's current source (no execution of ttconv): " + mod.EXPLANATION,
      "design_ref": f"DESIGN.md section 5, {pid}",
    },
    "level_note": "Not decided (value / history dependent, out of reach of static analysis): " + "; ".join(mod.UNDECIDED)
                  + ". Trusted base: CPython ast; ttverif engine (name/call resolution, statement CFG, dataflow); "
                  + "; ".join(getattr(mod, "TRUSTED", [])) + ".",
    "technique": getattr(mod, "TECHNIQUE", "custom static analysis over the Python ast: " + mod.RULE_TEXT),
  })

manifest = {
  "version": 1,
  "setup_cmd": "/venv/bin/python -m compileall -q /verif/ttverif",
  "hooks": {
    "guard": "SANDFLOW_TTCONV_VERIF",
    "enable": "none needed: the checks read /repo's source and never build or run it; no instrumentation exists in /repo",
    "baseline_off_cmd": "cd /repo && /venv/bin/python -m pytest -ra -q -p no:cacheprovider --timeout=900 --continue-on-collection-errors",
    "source_commits": [c.split()[0] for c in fix_commits],
    "add_only": True,
  },
  "engines": [{
    "name": "ttverif", "path": "/verif/ttverif", "serves_properties": served,
    "kind_free_text": "repository-specific static analysis on the Python ast: symbol index, class-hierarchy call resolution, light type "
                      "inference, statement CFG + dominators + forward dataflow (definite assignment, nullness, numeric kind), "
                      "constant/table extraction compared with oracles written from the standards",
  }],
  "checks": checks,
  "not_applicable": na,
  "notes": "All commits listed in hooks.source_commits are unguarded 'fix:' repairs of genuine defects (see known_findings.json and "
           "DESIGN.md section 6); there are no hook/instrumentation commits. Exit codes: 0 held, 1 VIOLATION, 2 ANALYSIS-ERROR.",
}
json.dump(manifest, open("/verif/MANIFEST.json", "w"), indent=1)
print(f"checks={len(checks)} not_applicable={len(na)} fix_commits={len(fix_commits)}")
