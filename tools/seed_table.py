#!/venv/bin/python
"""Write /verif/seeded/README.md: every stored seeded change, what it does, and which rule of the
property's check reports it (computed now, on scratch copies)."""
import io, json, os, shutil, subprocess, sys, tempfile, multiprocessing, contextlib
sys.path.insert(0, os.path.dirname(os.path.dirname(os.path.abspath(__file__))))
S = "/verif/seeded"


def one(sid):
  from ttverif.__main__ import run_check
  d = os.path.join(S, sid)
  meta = json.load(open(os.path.join(d, "meta.json")))
  prop = meta.get("property", sid.split("-")[0])
  base = tempfile.mkdtemp(prefix="ttverif-seedtab-")
  try:
    root = os.path.join(base, "src", "main", "python")
    shutil.copytree("/repo/src/main/python", root, ignore=shutil.ignore_patterns("__pycache__"))
    r = subprocess.run(["git", "apply", "--include=src/main/python/*", os.path.join(d, "patch.diff")], cwd=base, capture_output=True, text=True)
    if r.returncode != 0:
      return sid, prop, "patch no longer applies", "", meta
    buf = io.StringIO()
    with contextlib.redirect_stdout(buf), contextlib.redirect_stderr(buf):
      rc = run_check(prop, "quick", root)
    fired = sorted({l.split("rule=")[1].split(" ")[0] for l in buf.getvalue().splitlines() if l.strip().startswith("violated:")})
    return sid, prop, {0: "missed", 1: "caught"}.get(rc, "analysis-error"), ", ".join(fired), meta
  finally:
    shutil.rmtree(base, ignore_errors=True)


def main():
  ids = sorted(x for x in os.listdir(S) if os.path.exists(os.path.join(S, x, "meta.json")))
  with multiprocessing.Pool(16) as pool:
    rows = pool.map(one, ids, chunksize=1)
  rnd = {"s": "1/2", "t": "3", "u": "4", "v": "5", "w": "6", "x": "7"}
  out = ["# Seeded changes", "",
         "Each directory holds `patch.diff` (applies to /repo at the commit named in DESIGN.md section 12), `demo.py` (PASS on the unchanged tree, FAIL with the patch) and `meta.json`.",
         "Every change was produced by an independent sub-agent that saw only the property text, and was validated with `tools/seed_eval.py` (applies, compiles, pinned suite unchanged, demo flips) before it was stored.",
         "`benign/` holds behaviour-preserving refactorings produced the same way (validated with `tools/benign_eval.py`); no check may alarm on them.", "",
         "| Seed | Round | Verdict now | Reporting rule(s) | What the change does |", "|---|---|---|---|---|"]
  for sid, prop, verdict, fired, meta in rows:
    letter = sid.split("-")[1][0]
    summ = " ".join(str(meta.get("summary", "")).split())[:230].replace("|", "/")
    out.append(f"| {sid} | {rnd.get(letter, '?')} | {verdict} | {fired} | {summ} |")
  c = sum(1 for r in rows if r[2] == "caught")
  out += ["", f"{c} of {len(rows)} stored breaking changes are reported by the check of their property on the current tree."]
  open(os.path.join(S, "README.md"), "w").write("\n".join(out) + "\n")
  print(f"{c}/{len(rows)} caught; README written")


main()
