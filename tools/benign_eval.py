#!/venv/bin/python
"""Validate a behaviour-preserving refactoring produced by an independent sub-agent and run ALL
property checks against it.  Validation happens in the scratch worktree /tmp/val (never /repo):
the patch applies, compiles, the pinned suite gives the baseline's stable_pass set, demo.py passes
before and after.  Any check that exits non-zero on a valid refactoring is a FALSE ALARM of ours.

usage: benign_eval.py <dir with patch.diff demo.py meta.json> [--store <id>]"""
import json, os, shutil, subprocess, sys
sys.path.insert(0, os.path.dirname(os.path.abspath(__file__)))
import seed_eval as se

VAL = se.VAL


def main():
  d = os.path.abspath(sys.argv[1])
  store = sys.argv[sys.argv.index("--store") + 1] if "--store" in sys.argv else None
  head = se.sh("git -C /repo rev-parse HEAD").stdout.strip()
  se.sh(f"git -C {VAL} checkout -q -- . && git -C {VAL} clean -fdq src && git -C {VAL} checkout -q --detach {head}")
  out = {"dir": d}
  r0 = se.sh(f"/venv/bin/python {d}/demo.py", env=se.ENV, cwd=VAL)
  ap = se.sh(f"git -C {VAL} apply {d}/patch.diff")
  if ap.returncode != 0:
    print(json.dumps({"dir": d, "apply": "FAILED " + ap.stderr[:200]}))
    return 2
  comp = se.sh(f"/venv/bin/python -m compileall -q {VAL}/src/main/python/ttconv")
  missing = se.suite_ok()
  r1 = se.sh(f"/venv/bin/python {d}/demo.py", env=se.ENV, cwd=VAL)
  out["valid"] = r0.returncode == 0 and r1.returncode == 0 and not missing and comp.returncode == 0
  out["suite_missing"] = missing[:3]
  out["demo"] = (r0.returncode, r1.returncode)
  alarms = {}
  for i in range(1, 20):
    p = f"C{i:02d}"
    r = se.sh(f"cd {os.environ.get('TTV_VERIF', '/verif')} && /venv/bin/python -m ttverif check {p} --root {VAL}/src/main/python")
    if r.returncode != 0:
      lines = [l.strip()[:260] for l in r.stdout.splitlines() if l.strip().startswith("violated:") or "ANALYSIS-ERROR" in l]
      alarms[p] = {"rc": r.returncode, "lines": lines[:4]}
  out["alarms"] = alarms
  se.sh(f"git -C {VAL} checkout -q -- . && git -C {VAL} clean -fdq src")
  if store and out["valid"]:
    dst = f"/verif/seeded/benign/{store}"
    os.makedirs(dst, exist_ok=True)
    for fn in ("patch.diff", "demo.py", "meta.json"):
      shutil.copy(os.path.join(d, fn), dst)
  print(json.dumps(out, indent=1))
  return 0


if __name__ == "__main__":
  sys.exit(main())
