#!/venv/bin/python
"""Maintain /verif/known_findings.json (by hand, never at check run time).
usage: kf.py fixed  <props,comma> <rule> <construct> <commit> <what>
       kf.py known  <props,comma> <rule> <construct> <what>
"""
import json, sys
p = '/verif/known_findings.json'
d = json.load(open(p))
kind = sys.argv[1]
props = sys.argv[2].split(',')
if kind == 'fixed':
    _, _, _, rule, construct, commit, what = sys.argv
    for pr in props:
        d['findings'].append({"status": "fixed", "property": pr, "rule": rule, "construct": construct, "commit": commit,
                              "what": what, "line": f"fixed: property={pr} {commit} {what}"})
else:
    _, _, _, rule, construct, what = sys.argv
    for pr in props:
        d['findings'].append({"status": "known", "property": pr, "rule": rule, "construct": construct, "what": what})
json.dump(d, open(p, 'w'), indent=1)
