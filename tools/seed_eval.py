#!/venv/bin/python
"""Validate a seeded change and run the property's checks against it.

usage: seed_eval.py <seed dir with patch.diff, demo.py, meta.json> [--keep-as <id>]

Validation happens in the scratch worktree /tmp/val (never in /repo):
  1. the patch applies to a clean copy of /repo's HEAD,
  2. the pinned test suite gives exactly the baseline's stable_pass set,
  3. demo.py prints FAIL (exit 1) with the patch and PASS (exit 0) without it.
Then every registered check whose property is in meta.json (or all, with --all) is run with
--root pointing at the patched scratch tree and the verdicts are printed.
"""
import json
import os
import shutil
import subprocess
import sys
import tempfile
import xml.etree.ElementTree as et

VAL = os.environ.get("TTV_VAL", "/tmp/val")
ENV = dict(os.environ, PYTHONPATH=f"{VAL}/src/main/python")


def sh(cmd, **kw):
  return subprocess.run(cmd, shell=True, capture_output=True, text=True, **kw)


def suite_ok():
  base = json.load(open("/root/.vp/BASELINE.json"))
  fd, path = tempfile.mkstemp(suffix=".xml")
  os.close(fd)
  sh(f"cd {VAL} && /venv/bin/python -m pytest -q -p no:cacheprovider --timeout=900 --continue-on-collection-errors --junitxml={path} src/test/python", env=ENV)
  passed = set()
  for tc in et.parse(path).getroot().iter("testcase"):
    if not [c for c in tc if c.tag in ("failure", "error", "skipped")]:
      passed.add(f"src.test.python.{tc.get('classname').split('.')[-2]}.{tc.get('classname').split('.')[-1]}::{tc.get('name')}")
  os.unlink(path)
  missing = [t for t in base["stable_pass"] if t not in passed]
  return missing


def main():
  seed = os.path.abspath(sys.argv[1])
  props_arg = None
  if "--props" in sys.argv:
    props_arg = sys.argv[sys.argv.index("--props") + 1].split(",")
  meta = json.load(open(os.path.join(seed, "meta.json")))
  prop = meta.get("property")
  sh(f"git -C {VAL} checkout -q -- . && git -C {VAL} clean -fdq src")
  head_repo = sh("git -C /repo rev-parse HEAD").stdout.strip()
  sh(f"git -C {VAL} checkout -q --detach {head_repo}")
  out = {"seed": seed, "property": prop}
  demo = os.path.join(seed, "demo.py")
  r0 = sh(f"/venv/bin/python {demo}", env=ENV, cwd=VAL)
  out["demo_clean"] = (r0.returncode, (r0.stdout.strip().splitlines() or [""])[-1][:80])
  ap = sh(f"git -C {VAL} apply {os.path.join(seed, 'patch.diff')}")
  if ap.returncode != 0:
    out["apply"] = "FAILED: " + ap.stderr.strip()[:200]
    print(json.dumps(out, indent=1))
    return 2
  out["apply"] = "ok"
  comp = sh(f"/venv/bin/python -m compileall -q {VAL}/src/main/python/ttconv")
  out["compiles"] = comp.returncode == 0
  missing = suite_ok()
  out["suite_missing"] = missing[:5]
  r1 = sh(f"/venv/bin/python {demo}", env=ENV, cwd=VAL)
  out["demo_patched"] = (r1.returncode, (r1.stdout.strip().splitlines() or [""])[-1][:80])
  out["valid"] = out["demo_clean"][0] == 0 and out["demo_patched"][0] == 1 and not missing and out["compiles"]
  # run the checks against the patched scratch tree
  props = props_arg or [prop]
  verdicts = {}
  for p in props:
    r = sh(f"cd {os.environ.get('TTV_VERIF', '/verif')} && /venv/bin/python -m ttverif check {p} --root {VAL}/src/main/python")
    lines = [l.strip() for l in r.stdout.splitlines() if l.strip().startswith("violated:") or "ANALYSIS-ERROR" in l]
    verdicts[p] = {"rc": r.returncode, "fired": lines[:6]}
  out["checks"] = verdicts
  sh(f"git -C {VAL} checkout -q -- . && git -C {VAL} clean -fdq src")
  print(json.dumps(out, indent=1))
  return 0


if __name__ == "__main__":
  sys.exit(main())
