#!/venv/bin/python
"""Run every property check against every stored behaviour-preserving refactoring
(/verif/seeded/benign/*, validated by benign_eval.py when stored).  Any exit code other than 0 is a
false alarm of the machinery.  Patches are applied to scratch copies (tempdir), never to /repo.
usage: benign_matrix.py [id-prefix ...] [--jobs N]"""
import io, json, os, shutil, subprocess, sys, tempfile, multiprocessing, contextlib
sys.path.insert(0, os.path.dirname(os.path.dirname(os.path.abspath(__file__))))
D = "/verif/seeded/benign"
ROOT = "/repo/src/main/python"


def one(bid):
  from ttverif.__main__ import run_check
  base = tempfile.mkdtemp(prefix="ttverif-benign-")
  try:
    root = os.path.join(base, "src", "main", "python")
    shutil.copytree(ROOT, root, ignore=shutil.ignore_patterns("__pycache__"))
    r = subprocess.run(["git", "apply", "--include=src/main/python/*", os.path.join(D, bid, "patch.diff")], cwd=base, capture_output=True, text=True)
    if r.returncode != 0:
      return bid, "apply-failed", {}
    alarms, undec = {}, {}
    for i in range(1, 20):
      p = f"C{i:02d}"
      buf = io.StringIO()
      with contextlib.redirect_stdout(buf), contextlib.redirect_stderr(buf):
        rc = run_check(p, "quick", root)
      out = buf.getvalue()
      if rc != 0:
        alarms[p] = (rc, [l.strip()[:230] for l in out.splitlines() if l.strip().startswith("violated:") or "ANALYSIS-ERROR" in l][:3])
      u = [l.strip()[:200] for l in out.splitlines() if l.startswith("UNDECIDED")]
      if u:
        undec[p] = u
    return bid, alarms, undec
  finally:
    shutil.rmtree(base, ignore_errors=True)


def main():
  args = [a for a in sys.argv[1:] if not a.startswith("-")]
  jobs = int(sys.argv[sys.argv.index("--jobs") + 1]) if "--jobs" in sys.argv else 16
  if "--jobs" in sys.argv:
    args = [a for a in args if a != sys.argv[sys.argv.index("--jobs") + 1]]
  ids = sorted(x for x in os.listdir(D) if not args or any(x.startswith(a) for a in args))
  with multiprocessing.Pool(min(jobs, max(1, len(ids)))) as pool:
    res = pool.map(one, ids, chunksize=1)
  n_alarm = n_und = 0
  for bid, alarms, undec in res:
    if alarms == "apply-failed":
      print(bid, "APPLY-FAILED")
      continue
    if alarms:
      n_alarm += 1
    if undec:
      n_und += 1
    print(bid, "ALARM" if alarms else "silent", json.dumps(alarms) if alarms else "", ("undecided: " + json.dumps({k: len(v) for k, v in undec.items()})) if undec else "")
    if "-v" in sys.argv:
      for p, u in undec.items():
        for l in u:
          print("     ", l)
  print(f"{len(res)} refactorings: {n_alarm} with an alarm, {n_und} with undecided steps")


main()
