#!/venv/bin/python
"""Run each stored seeded change (already validated by seed_eval.py) against its property's check.
The patch is applied to the scratch worktree /tmp/val (never to /repo) and reverted afterwards.
usage: seed_matrix.py [seed-id-prefix ...]"""
import json, os, subprocess, sys
VAL = "/tmp/val"
SEEDS = "/verif/seeded"


def sh(c):
  return subprocess.run(c, shell=True, capture_output=True, text=True)


def main():
  pre = sys.argv[1:]
  head = sh("git -C /repo rev-parse HEAD").stdout.strip()
  sh(f"git -C {VAL} checkout -q -- . && git -C {VAL} checkout -q --detach {head}")
  rows = []
  for sid in sorted(x for x in os.listdir(SEEDS) if os.path.exists(os.path.join(SEEDS, x, "meta.json"))):
    if pre and not any(sid.startswith(p) for p in pre):
      continue
    d = os.path.join(SEEDS, sid)
    meta = json.load(open(os.path.join(d, "meta.json")))
    prop = meta.get("property", sid.split("-")[0])
    ap = sh(f"git -C {VAL} apply {d}/patch.diff")
    if ap.returncode != 0:
      rows.append((sid, prop, "APPLY-FAILED", ap.stderr.strip()[:80]))
      continue
    r = sh(f"cd /verif && /venv/bin/python -m ttverif check {prop} --root {VAL}/src/main/python")
    fired = sorted({l.split("rule=")[1].split(" ")[0] for l in r.stdout.splitlines() if l.strip().startswith("violated:")})
    err = [l for l in r.stdout.splitlines() if "ANALYSIS-ERROR" in l]
    rows.append((sid, prop, {0: "missed", 1: "caught", 2: "analysis-error"}.get(r.returncode, str(r.returncode)), ",".join(fired) or (err[0][:90] if err else "")))
    sh(f"git -C {VAL} checkout -q -- .")
  for row in rows:
    print("%-8s %-4s %-15s %s" % row)
  c = sum(1 for r in rows if r[2] == "caught")
  print(f"{c}/{len(rows)} caught")


main()
