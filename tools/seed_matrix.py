#!/venv/bin/python
"""Run each stored seeded change (already validated by seed_eval.py) against its property's check.
The patch is applied to a scratch copy of /repo's source (tempdir, removed afterwards), never to /repo.
usage: seed_matrix.py [seed-id-prefix ...] [--jobs N]"""
import io, json, os, shutil, subprocess, sys, tempfile, multiprocessing, contextlib
sys.path.insert(0, os.path.dirname(os.path.dirname(os.path.abspath(__file__))))
SEEDS = "/verif/seeded"
ROOT = "/repo/src/main/python"


def one(sid):
  from ttverif.__main__ import run_check
  d = os.path.join(SEEDS, sid)
  meta = json.load(open(os.path.join(d, "meta.json")))
  prop = meta.get("property", sid.split("-")[0])
  base = tempfile.mkdtemp(prefix="ttverif-seed-")
  try:
    root = os.path.join(base, "src", "main", "python")
    shutil.copytree(ROOT, root, ignore=shutil.ignore_patterns("__pycache__"))
    ap = subprocess.run(["git", "apply", "--include=src/main/python/*", os.path.join(d, "patch.diff")], cwd=base, capture_output=True, text=True)
    if ap.returncode != 0:
      return (sid, prop, "APPLY-FAILED", ap.stderr.strip()[:80])
    buf = io.StringIO()
    with contextlib.redirect_stdout(buf), contextlib.redirect_stderr(buf):
      rc = run_check(prop, "quick", root)
    out = buf.getvalue().splitlines()
    fired = sorted({l.split("rule=")[1].split(" ")[0] for l in out if l.strip().startswith("violated:")})
    err = [l for l in out if "ANALYSIS-ERROR" in l]
    und = sum(1 for l in out if l.startswith("UNDECIDED"))
    return (sid, prop, {0: "missed", 1: "caught", 2: "analysis-error"}.get(rc, str(rc)), (",".join(fired) or (err[0][:90] if err else "")) + (f"  [{und} undecided]" if und else ""))
  finally:
    shutil.rmtree(base, ignore_errors=True)


def main():
  argv = sys.argv[1:]
  jobs = 16
  if "--jobs" in argv:
    i = argv.index("--jobs")
    jobs = int(argv[i + 1])
    del argv[i:i + 2]
  ids = sorted(x for x in os.listdir(SEEDS) if os.path.exists(os.path.join(SEEDS, x, "meta.json")) and (not argv or any(x.startswith(p) for p in argv)))
  with multiprocessing.Pool(min(jobs, max(1, len(ids)))) as pool:
    rows = pool.map(one, ids, chunksize=1)
  for row in rows:
    print("%-8s %-4s %-15s %s" % row)
  c = sum(1 for r in rows if r[2] == "caught")
  print(f"{c}/{len(rows)} caught")


if __name__ == "__main__":
  main()
