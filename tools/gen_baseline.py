#!/venv/bin/python
"""Regenerate /verif/ttverif/baseline.json: names, skeleton hashes, ordered locals and private
attributes of every function of the reference tree (/repo at its current HEAD).  Run it after a
`fix:` commit to /repo, on a clean working tree only; the file holds no source text."""
import json, os, subprocess, sys
sys.path.insert(0, os.path.dirname(os.path.dirname(os.path.abspath(__file__))))
from ttverif import canon
from ttverif.core import Index

st = subprocess.run("git -C /repo status --porcelain -- src/main/python", shell=True, capture_output=True, text=True).stdout.strip()
if st:
  sys.exit("refusing: /repo working tree is not clean:\n" + st)
os.environ["TTVERIF_NO_CANON"] = "1"
ix = Index()
head = subprocess.run("git -C /repo rev-parse HEAD", shell=True, capture_output=True, text=True).stdout.strip()
data = {"_reference_commit": head}
data.update(canon.baseline_of(ix.modules))
with open(canon.BASELINE_FILE, "w", encoding="utf-8") as f:
  json.dump(data, f, indent=0, sort_keys=True)
print("baseline for", len([k for k in data if not k.startswith("_")]), "modules,", sum(len(v) for k, v in data.items() if not k.startswith("_")), "functions at", head[:8])
