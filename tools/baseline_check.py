#!/venv/bin/python
"""Run the repository's pinned test suite and compare with /root/.vp/BASELINE.json stable_pass."""
import json, subprocess, sys, tempfile, os, xml.etree.ElementTree as et
base = json.load(open('/root/.vp/BASELINE.json'))
fd, path = tempfile.mkstemp(suffix='.xml'); os.close(fd)
cmd = base['cmd'].replace('<file>', path)
r = subprocess.run(cmd, shell=True, capture_output=True, text=True)
passed = set()
for tc in et.parse(path).getroot().iter('testcase'):
    bad = [c.tag for c in tc if c.tag in ('failure', 'error', 'skipped')]
    if not bad:
        passed.add(f"{tc.get('classname')}::{tc.get('name')}")
os.unlink(path)
missing = [t for t in base['stable_pass'] if t not in passed]
print(f"stable_pass={len(base['stable_pass'])} passed_now={len(passed)} missing={len(missing)}")
for m in missing[:20]: print("  NOT PASSING:", m)
sys.exit(1 if missing else 0)
